#!/usr/bin/env python3
"""dev helper: assemble a unit for a property and show verus output.  usage: dev.py C01 [view]"""
import sys, os, glob, json
sys.path.insert(0, os.path.dirname(os.path.abspath(__file__)))
import vdrv
prop = sys.argv[1]
view = sys.argv[2] if len(sys.argv) > 2 else "release"
vdrv.EXTRACTOR = os.path.join(vdrv.VERIF, "extractor", "target", "debug", "extractor")
specs = sorted(glob.glob(os.path.join(vdrv.VERIF, "contracts", "*.vspec")))
import props_cfg
props = [os.path.join(vdrv.VERIF, "props", f) for f in [u for u in props_cfg.PROPS[prop]["units"] if u.get("name") == "GENERIC"][0]["props"]] if prop in props_cfg.PROPS else [os.path.join(vdrv.VERIF, "props", "lib_algebra.rs"), os.path.join(vdrv.VERIF, "props", prop + ".rs")]
try:
    path, layout = vdrv.assemble("GENERIC_" + prop, specs, [prop], view, props, os.path.join(vdrv.BUILD, "dev"))
except vdrv.ToolFailure as e:
    print("TOOL:", e); sys.exit(2)
run = vdrv.run_verus(path)
kind, info = vdrv.classify(run)
print(kind)
if kind != "ok":
    print(run["stderr"][-6000:])
else:
    print(info, "wall %.1fs" % run["wall"])

#!/bin/bash
# usage: try_seed_scratch.sh <seed-name> <prop>...  — like try_seed.sh but on a scratch copy of /repo/src
# (no witness replay against the changed code: the replay crate builds against /repo)
NAME=$1; shift
S=/tmp/seedrepo_$$; rm -rf $S; mkdir -p $S; cp -r /repo/src $S/src
(cd $S && patch -s -p1 < /verif/seeded/$NAME/patch.diff) || { echo "patch failed"; rm -rf $S; exit 2; }
for p in "$@"; do
  VERIF_REPO=$S VERIF_NO_EVIDENCE=1 /verif/check $p --tier quick > /tmp/seedscr_$$_$p.txt 2>&1; rc=$?
  echo "$NAME $p rc=$rc $(grep -E 'VIOLATION|TOOL-FAILURE|FAILED-OBLIGATION' /tmp/seedscr_$$_$p.txt | head -3 | cut -c1-230)"
  rm -f /tmp/seedscr_$$_$p.txt
done
rm -rf $S

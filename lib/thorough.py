"""Thorough tier extras: seed variation, vacuity probes, mutation self-test (filled in later)."""


def run(prop, cfg, seed, workdir, results):
    return {}

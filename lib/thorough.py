"""Thorough tier extras (DESIGN.md 2.5): run after the quick-tier units have passed.

(a) seed variation  — every Verus unit is re-verified under two more SMT seeds; an obligation that
    flips is reported as unstable (tool failure, exit 2), never as a violation;
(b) vacuity probes  — `assert(false)` is appended to the end of every harness function; Verus must
    FAIL each of them, otherwise the hypotheses of that harness are contradictory (exit 2);
(c) mutation self-test — a fixed list of source edits (lib/mutants.py, plus the seeded changes under
    seeded/) is applied to a scratch copy of /repo/src; the quick check of this property must raise
    an alarm for each mutant assigned to it.  Survivors are recorded in the evidence (they do not
    change the exit code: they document detection power measured on this run).
"""
import json
import os
import re
import shutil
import subprocess

import vdrv
import glob
import mutants


def _probe_text(src):
    """append assert(false) before the closing brace of every top-level fn of a props file;
    returns (text, [line numbers of the inserted asserts], [fn names])"""
    lines = src.splitlines()
    out = []
    probes = []
    names = []
    depth = 0
    cur = None
    in_sig = False
    for ln in lines:
        stripped = ln.strip()
        if stripped.startswith("pub mod props {"):
            out.append(ln)
            continue
        m = re.match(r"^pub (proof fn|fn|broadcast proof fn) (\w+)", ln)
        if depth == 0 and m and "spec fn" not in ln:
            cur = m.group(2)
            in_sig = True
        opens = ln.count("{")
        closes = ln.count("}")
        if depth == 0 and cur and in_sig and opens > 0:
            in_sig = False
        if cur and not in_sig and depth + opens - closes == 0 and closes > 0 and stripped == "}":
            out.append("    assert(false); // VACUITY-PROBE " + cur)
            probes.append(len(out))
            names.append(cur)
            cur = None
        depth += opens - closes
        out.append(ln)
    return "\n".join(out) + "\n", probes, names


def vacuity(unit_res, workdir):
    """returns list of harness functions whose end is NOT refuted (vacuous)"""
    path = unit_res["path"]
    txt = open(path).read()
    i = txt.find("pub mod props {")
    if i < 0:
        return [], 0
    head, tail = txt[:i], txt[i:]
    j = tail.rfind("} // mod props")
    body = tail[:j]
    ptxt, probes, names = _probe_text(body)
    if not probes:
        return [], 0
    off = head.count("\n")
    new = head + ptxt + tail[j:]
    ppath = path.replace(".rs", "_vacuity.rs")
    open(ppath, "w").write(new)
    run = vdrv.run_verus(ppath, extra=["--verify-only-module", "props"], rlimit=2, timeout=600)
    if run["json"] is None or (run["json"].get("verification-results", {}).get("verified", 0) == 0 and run["json"].get("verification-results", {}).get("errors", 0) == 0):
        raise vdrv.ToolFailure("vacuity probe run produced no result:\n" + run["stderr"][-2000:])
    # a probe is vacuous iff Verus VERIFIED the function although it ends in assert(false);
    # a failed assertion or an exhausted resource limit both mean "not proved", i.e. not vacuous
    ok_fns = set()
    try:
        for mt in run["json"]["times-ms"]["smt"]["smt-run-module-times"]:
            for fb in mt.get("function-breakdown", []):
                if fb.get("success"):
                    ok_fns.add(fb["function"].split("::")[-1])
    except Exception:
        raise vdrv.ToolFailure("vacuity probe run: no per-function results")
    vac = [n for n in names if n in ok_fns]
    return vac, len(probes)


def _fail_set(kind, info):
    if kind != "semantic":
        return set()
    return set((d["msg"], tuple(sorted(set(l for (_, l, _) in d["locs"])))) for d in info)


def seed_variation(unit_res, seed):
    """the verdict (set of failing obligations; empty on a clean tree, the known findings otherwise)
    must be the same under other SMT seeds"""
    base = _fail_set(unit_res["kind"], unit_res["info"])
    flips = []
    for s in (seed + 101, seed + 977):
        run = vdrv.run_verus(unit_res["path"], seed=s)
        kind, info = vdrv.classify(run)
        if kind == "tool" or _fail_set(kind, info) != base:
            flips.append({"seed": s, "kind": kind, "detail": run["stderr"][-800:]})
    return flips


def _one_mutant(args):
    prop, workdir, k, mname, m = args
    scratch = os.path.join(workdir, "mutant_repo_%d" % k)
    work = os.path.join(workdir, "mutant_work_%d" % k)
    for d in (scratch, work):
        if os.path.exists(d):
            shutil.rmtree(d)
    os.makedirs(scratch)
    try:
        shutil.copytree(os.path.join(vdrv.REPO, "src"), os.path.join(scratch, "src"))
        for f in ("Cargo.toml", "Cargo.lock"):      # so that the witness crate can be built against the copy
            if os.path.exists(os.path.join(vdrv.REPO, f)):
                shutil.copy(os.path.join(vdrv.REPO, f), os.path.join(scratch, f))
        if not mutants.apply(m, scratch):
            return ("not_applicable", mname, None)
        env = dict(os.environ, VERIF_REPO=scratch, VERIF_TIER="quick", VERIF_NO_EVIDENCE="1", VERIF_WORK=work)
        r = subprocess.run([os.path.join(vdrv.VERIF, "check"), prop, "--tier", "quick"], env=env, stdout=subprocess.PIPE, stderr=subprocess.PIPE, text=True)
        verdict = {0: "survived", 1: "killed"}.get(r.returncode, "undecided(exit %d)" % r.returncode)
        ob = re.findall(r"FAILED-OBLIGATION property=\S+ (\S+)", r.stdout)
        return ("killed" if r.returncode == 1 else "survived", mname, {"mutant": mname, "verdict": verdict, "failed_obligations": ob[:4]})
    finally:
        for d in (scratch, work):
            shutil.rmtree(d, ignore_errors=True)


def mutation_selftest(prop, workdir):
    """every mutant gets its own scratch copy of /repo/src and its own work directory; four at a time"""
    from concurrent.futures import ThreadPoolExecutor
    res = {"killed": [], "survived": [], "not_applicable": []}
    jobs = [(prop, workdir, k, mname, m) for k, (mname, m) in enumerate(mutants.for_property(prop))]
    with ThreadPoolExecutor(max_workers=int(os.environ.get("VERIF_MUTANT_JOBS", "4"))) as ex:
        for kind, mname, entry in ex.map(_one_mutant, jobs):
            if kind == "not_applicable":
                res["not_applicable"].append(mname)
            else:
                res[kind].append(entry)
    return res


def _one_benign(args):
    prop, workdir, k, name, path = args
    scratch = os.path.join(workdir, "benign_repo_%d" % k)
    work = os.path.join(workdir, "benign_work_%d" % k)
    for d in (scratch, work):
        if os.path.exists(d):
            shutil.rmtree(d)
    os.makedirs(scratch)
    try:
        shutil.copytree(os.path.join(vdrv.REPO, "src"), os.path.join(scratch, "src"))
        for f in ("Cargo.toml", "Cargo.lock"):      # so that the witness crate can be built against the copy
            if os.path.exists(os.path.join(vdrv.REPO, f)):
                shutil.copy(os.path.join(vdrv.REPO, f), os.path.join(scratch, f))
        r0 = subprocess.run(["patch", "-p1", "-s", "-d", scratch, "-i", path], stdout=subprocess.PIPE, stderr=subprocess.PIPE)
        if r0.returncode != 0:
            return {"refactor": name, "verdict": "not_applicable"}
        env = dict(os.environ, VERIF_REPO=scratch, VERIF_TIER="quick", VERIF_NO_EVIDENCE="1", VERIF_WORK=work)
        r = subprocess.run([os.path.join(vdrv.VERIF, "check"), prop, "--tier", "quick"], env=env, stdout=subprocess.PIPE, stderr=subprocess.PIPE, text=True)
        return {"refactor": name, "verdict": {0: "held", 1: "FALSE-ALARM", 2: "undecided"}.get(r.returncode, "exit %d" % r.returncode),
                "failed_obligations": re.findall(r"FAILED-OBLIGATION property=\S+ (\S+)", r.stdout)[:4]}
    finally:
        for d in (scratch, work):
            shutil.rmtree(d, ignore_errors=True)


def benign_selftest(prop, workdir):
    """the behaviour-preserving refactors written against this property (benign/<prop>-benign*/patch.diff) on a
    scratch copy: the check must not alarm (exit 0, or exit 2 where the body left the verified shape)"""
    from concurrent.futures import ThreadPoolExecutor
    jobs = [(prop, workdir, k, os.path.basename(os.path.dirname(p)), p)
            for k, p in enumerate(sorted(glob.glob(os.path.join(vdrv.VERIF, "benign", prop + "-benign*", "patch.diff"))))]
    with ThreadPoolExecutor(max_workers=2) as ex:
        return list(ex.map(_one_benign, jobs))


def run(prop, cfg, seed, workdir, results):
    out = {"seed_variation": [], "vacuity_probes": 0, "vacuous": [], "unstable": []}
    for r in results:
        if r.get("backend") == "kani":
            continue
        flips = seed_variation(r, seed)
        out["seed_variation"].append({"unit": r["unit"], "extra_seeds": 2, "flips": flips})
        if flips:
            out["unstable"].append({"unit": r["unit"], "flips": flips})
        vac, n = vacuity(r, workdir)
        out["vacuity_probes"] += n
        if vac:
            out["vacuous"].extend(vac)
    if not out["unstable"] and not out["vacuous"] and not os.environ.get("VERIF_NO_MUTANTS"):
        out["mutation_selftest"] = mutation_selftest(prop, workdir)
        out["benign_selftest"] = benign_selftest(prop, workdir)
        bad = [b for b in out["benign_selftest"] if b["verdict"] == "FALSE-ALARM"]
        if bad:
            out["unstable"] = out.get("unstable", []) + [{"unit": "benign_selftest", "flips": bad}]
    if not out["unstable"]:
        out.pop("unstable")
    if not out["vacuous"]:
        out.pop("vacuous")
    return out

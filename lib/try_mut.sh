#!/bin/bash
# usage: try_mut.sh <file-under-src> <python-regex> <replacement> <prop>...
# applies ONE textual edit to a scratch copy of /repo/src and runs the quick checks against it
F=$1; PAT=$2; REP=$3; shift 3
S=/tmp/mutrepo_$$; rm -rf $S; mkdir -p $S; cp -r /repo/src $S/src
python3 - "$S/src/$F" "$PAT" "$REP" <<'PY' || { rm -rf $S; exit 2; }
import re,sys
p,pat,rep=sys.argv[1:4]
s=open(p).read()
n=len(re.findall(pat,s))
if n==0: print("pattern not found"); sys.exit(2)
s2=re.sub(pat,rep,s,count=1)
open(p,'w').write(s2); print("applied 1 of",n,"matches")
PY
for p in "$@"; do
  VERIF_REPO=$S VERIF_NO_EVIDENCE=1 /verif/check $p --tier quick > /tmp/mut_$$_$p.txt 2>&1; rc=$?
  echo "$p rc=$rc $(grep -E 'VIOLATION|TOOL-FAILURE|FAILED-OBLIGATION' /tmp/mut_$$_$p.txt | head -4 | cut -c1-260)"
  rm -f /tmp/mut_$$_$p.txt
done
rm -rf $S

#!/usr/bin/env python3
"""development aid: (re)write contracts/pinned_layout.json — the field / variant order, field types and serde
attributes of every serialized data type — from the extracted text of the C18 unit of the CURRENT tree (the
data types are unchanged since the pinned commit 4bdca94; `git -C /repo diff 4bdca94 HEAD` touches no type).
usage: pin_layout.py <path to GENERIC_C18_release.extracted.rs>"""
import json, os, re, sys
VERIF = os.path.dirname(os.path.dirname(os.path.abspath(__file__)))
ex_text = open(sys.argv[1]).read()
old = json.load(open(os.path.join(VERIF, "contracts", "pinned_layout.json")))
cur = {}
for m in re.finditer(r"// extracted from \S+ \(type (\w+)\)\n((?:// serde attributes[^\n]*\n)?)(?:#\[derive[^\n]*\]\n)?(pub (?:struct|enum) .*?)\n\n", ex_text, flags=re.S):
    cur[m.group(1)] = re.sub(r"\s+", " ", m.group(3) + " " + m.group(2)).strip()
out = {k: cur[k] for k in old}
json.dump(out, open(os.path.join(VERIF, "contracts", "pinned_layout.json"), "w"), indent=1, sort_keys=True)
print(len(out), "types pinned;", sum(1 for v in out.values() if "serde attributes" in v), "with serde attributes")

#!/usr/bin/env python3
"""development aid: record the measured results of lib/try_seed.sh runs (a log of its output) into
seeded/*/meta.json and regenerate the seeds table of DESIGN.md section 10.
usage: seed_table.py [log ...]"""
import collections, glob, json, re, sys, os
VERIF = os.path.dirname(os.path.dirname(os.path.abspath(__file__)))

def obid(line):
    m = re.search(r'FAILED-OBLIGATION property=\S+ (.*)$', line)
    if not m:
        return None
    t = m.group(1)
    if ' src/' in t:
        t = t.split(' src/')[0]
    elif ' props/' in t:
        t = t.split(' props/')[0]
    elif ' : ' in t:
        t = t.split(' : ')[0]
    return t[:120]

for log in sys.argv[1:]:
    res = collections.defaultdict(dict)
    cur = None
    for line in open(log):
        line = line.rstrip('\n')
        m = re.match(r'^(C\d\d-\S+) (C\d\d) rc=(\d) ?(.*)$', line)
        if m:
            seed, prop, rc, rest = m.groups()
            cur = (seed, prop)
            res[seed][prop] = {"rc": int(rc), "obligations": [], "witness": None}
            o = obid(rest)
            if o:
                res[seed][prop]["obligations"].append(o)
            continue
        if cur:
            o = obid(line)
            if o:
                res[cur[0]][cur[1]]["obligations"].append(o)
            if line.startswith('VIOLATION'):
                res[cur[0]][cur[1]]["witness"] = not line.endswith('no-failing-input-found')
    for seed, d in res.items():
        p = os.path.join(VERIF, 'seeded', seed, 'meta.json')
        m = json.load(open(p))
        det = m.get("detected_by") if isinstance(m.get("detected_by"), dict) else {}
        keep = {k: v for k, v in det.items() if "OVER-STRICT" in v}
        det = {}
        for prop, r in d.items():
            if r["rc"] == 1:
                w = "witness replays on the real crate" if r["witness"] else "no-failing-input-found"
                det[prop] = "VIOLATION (rc=1): %s; %s" % (" + ".join(dict.fromkeys(r["obligations"][:3])) or "see replay file", w)
            elif r["rc"] == 0:
                det[prop] = "pass (rc=0): this property is not affected / does not state it"
            else:
                det[prop] = "undecided (rc=2): the changed body could not be brought into the verified subset and no witness of this property reproduces"
        det.update(keep)
        m["detected_by"] = det
        json.dump(m, open(p, 'w'), indent=1)

rows = []
for f in sorted(glob.glob(os.path.join(VERIF, 'seeded', '*', 'meta.json'))):
    m = json.load(open(f))
    patch = open(f.replace('meta.json', 'patch.diff')).read()
    files = sorted(set(re.findall(r'^\+\+\+ b/(\S+)', patch, flags=re.M)))
    cells = []
    for p, v in (m.get('detected_by') or {}).items():
        if v.startswith('VIOLATION'):
            body = v.split(': ', 1)[1]
            obs = body.split(';')[0].replace('|', '/')
            wit = 'witness replays' if 'witness replays' in v else ('no failing input found' if 'no-failing-input' in v else '')
            extra = ' (over-strict for this property, §2.7)' if 'OVER-STRICT' in v else ''
            cells.append("**%s** alarm: `%s`%s%s" % (p, obs[:170], (' — ' + wit) if wit else '', extra))
        elif v.startswith('pass'):
            cells.append("%s passes (not stated by it)" % p)
        else:
            cells.append("%s undecided (exit 2)" % p)
    rows.append("| `%s` | %s | %s | %s | %s |" % (m['seed'], m.get('round', 1), ", ".join(x.replace('src/', '') for x in files), (m.get('needs_to_manifest') or '').replace('|', '/'), "<br>".join(cells)))
dp = os.path.join(VERIF, 'DESIGN.md')
s = open(dp).read()
i = s.index("| seed |")
j = s.index('"Undecided" and "no failing input found"')
s = s[:i] + "| seed | round | file(s) under src/ | needs, to manifest | result of the checks (measured) |\n|---|---|---|---|---|\n" + "\n".join(rows) + "\n\n" + s[j:]
open(dp, 'w').write(s)
print(len(rows), "seeds")

"""Per-property configuration: which units decide it, what is trusted, what is not decided."""

TB_ALGEBRA = [
    "A-ORDER: r() is prime (used as: r > 1, no zero divisors in Z_r) — axiom_r_gt_1, axiom_no_zero_divisors",
    "A-GROUP: G1/G2/Gt/Scalar are opaque types determined by their discrete log in [0,r); +,-,neg,*scalar act on the dlog; by-ref and by-value operators agree",
    "A-PAIRING: Pairing::pairing(points) has dlog = sum dl(a_i)*dl(b_i) (proved for both implementors from multi_miller_loop's contract in units G1IMPL/G2IMPL)",
    "A-ENC: to_bytes is injective with a fixed length per group",
    "L-SUBTLE: Choice is a bool, CtOption is (value, is_some)",
    "L-STD: vstd specifications of Vec/slice/Option/Result; no allocation exceeds isize::MAX bytes",
    "H-HASH: hash_to_curve / hash_to_scalar are uninterpreted functions of (message, tag)",
    "extractor rules E0..E18 (DESIGN.md 2.2) preserve the meaning of the extracted functions",
]

X_NONID = "X-NONID (explicit hypothesis of the harness): H(m, dst) is not the identity point for the messages at hand"

GEN = {"name": "GENERIC", "backend": "verus"}


def gen(prop, props=None, **kw):
    d = dict(GEN)
    d["props"] = ["lib_algebra.rs"] + (props or [prop + ".rs"])
    d["tags"] = [prop]
    d.update(kw)
    return d


LEAF = {
    "name": "LEAF_BYTES", "backend": "kani", "crate": "leaf",
    "raw": ["trait:IsZero", "impl:IsZero for [u8]", "fn:byte_xor"],
    "prepend": "use subtle::Choice;",
    "harnesses": {
        "is_zero_n0": {"group": "is_zero", "function": "<[u8] as IsZero>::is_zero", "repo_location": "src/helpers.rs", "obligation": "is_zero() <=> all bytes zero, no panic/overflow, N = 0"},
        "is_zero_n1": {"group": "is_zero", "function": "<[u8] as IsZero>::is_zero", "repo_location": "src/helpers.rs", "obligation": "is_zero() <=> all bytes zero, no panic/overflow, N = 1 (all 256 values of the byte-OR)"},
        "is_zero_n2": {"group": "is_zero", "function": "<[u8] as IsZero>::is_zero", "repo_location": "src/helpers.rs", "obligation": "is_zero() <=> all bytes zero, no panic/overflow, N = 2"},
        "is_zero_n32": {"group": "is_zero", "function": "<[u8] as IsZero>::is_zero", "repo_location": "src/helpers.rs", "obligation": "is_zero() <=> all bytes zero, no panic/overflow, N = 32 (secret keys, challenges)"},
        "is_zero_n33": {"group": "is_zero", "function": "<[u8] as IsZero>::is_zero", "repo_location": "src/helpers.rs", "obligation": "is_zero() <=> all bytes zero, no panic/overflow, N = 33"},
        "byte_xor_n0": {"group": "byte_xor", "function": "byte_xor", "repo_location": "src/helpers.rs", "obligation": "byte_xor: element-wise xor of equal-length inputs, N = 0"},
        "byte_xor_n4": {"group": "byte_xor", "function": "byte_xor", "repo_location": "src/helpers.rs", "obligation": "byte_xor: element-wise xor of equal-length inputs, N = 4", "complete": False},
    },
    "bound_note": "is_zero: complete at the array sizes the library uses (0,1,2,32,33; unwind N+1 with unwinding assertions); byte_xor at N=4 is a BOUNDED stand-in (the unbounded contract is proved by Verus in unit GENERIC)",
    "trusted": ["Kani 0.68 / CBMC 6.11 and the `subtle` crate's Choice"],
}

ZIGZAG = {
    "name": "DEP_ZIGZAG", "backend": "kani", "crate": "zigzag", "raw": [], "use_repo_lock": True,
    "harnesses": {
        "peek_delimits_a_complete_varint": {"group": "zigzag_peek", "function": "uint_zigzag::Uint::{peek, try_from}", "repo_location": "dependency uint-zigzag (Cargo.lock)", "obligation": "L-ZIGZAG: peek(s) = Some(k) => 1 <= k <= min(|s|,19), s[..k] is a complete varint, try_from succeeds on it with the value of try_from(s); every byte string of length <= 20"},
        "length_prefix_round_trip": {"group": "zigzag_round_trip", "function": "uint_zigzag::Uint::{to_vec, peek, try_from}", "repo_location": "dependency uint-zigzag (Cargo.lock)", "obligation": "L-ZIGZAG: for every 64-bit length n, to_vec has <= 10 bytes, peek of (to_vec(n) ++ 2 arbitrary bytes) delimits it, try_from gives n back"},
    },
    "bound_note": "complete for the assumption as used: all byte strings up to 20 bytes (a varint has at most 19), all 64-bit lengths; trailing data limited to 2 symbolic bytes (peek never reads past the terminating byte)",
    "trusted": ["Kani 0.68 / CBMC 6.11"],
}


SHARE = {
    "name": "DEP_SHARE", "backend": "kani", "crate": "share", "use_repo_lock": True,
    "raw": ["impl:Share for InnerPointShareG1", "impl:Share for InnerPointShareG2"], "prepend": "use super::*;",
    "harnesses": {
        "array_share_49": {"group": "array_share", "function": "<[u8; 49] as vsss_rs::Share>", "repo_location": "dependency vsss-rs (Cargo.lock)", "obligation": "L-VSSS accessors at L = 49: identifier = byte 0, value = bytes 1.., identifier_mut writes byte 0 only, value_mut stores exactly L-1 bytes and refuses fewer, the empty share is zero"},
        "array_share_97": {"group": "array_share", "function": "<[u8; 97] as vsss_rs::Share>", "repo_location": "dependency vsss-rs (Cargo.lock)", "obligation": "the same at L = 97"},
        "inner_point_share_g1_delegates": {"group": "inner_point_share", "function": "<InnerPointShareG1 as Share>", "repo_location": "src/lib.rs", "obligation": "blsful's 49-byte share container (extracted unchanged) behaves as its inner array share: identifier, value, identifier_mut, value_mut, empty share"},
        "inner_point_share_g2_delegates": {"group": "inner_point_share", "function": "<InnerPointShareG2 as Share>", "repo_location": "src/lib.rs", "obligation": "the same for the 97-byte container"},
    },
    "bound_note": "complete at the two sizes blsful uses (fully symbolic arrays; one symbolic position per quantified byte)",
    "trusted": ["Kani 0.68 / CBMC 6.11", "the struct definitions InnerPointShareG1([u8; 49]) / InnerPointShareG2([u8; 97]) are restated in the harness crate without their serde / zeroize derives; a size other than 49 / 97 in /repo would not type-check against the extracted impls"],
}


SERDE_ARR = {
    "name": "SERDE_ARRAY", "backend": "kani", "crate": "serde_arr", "use_repo_lock": True,
    "raw": ["mod:fixed_arr"],
    "harnesses": {
        "hex_document_n1": {"group": "array_codec_hex", "function": "fixed_arr::BigArray::<[u8; N]>::deserialize (human-readable)", "repo_location": "src/helpers.rs", "complete": False,
                            "obligation": "N = 1, every ASCII string of length 0..=4 as the document: Ok exactly for 2N hex digits, the value is their decoding; truncated / over-long / non-hex refused; no panic"},
        "hex_document_n2": {"group": "array_codec_hex", "function": "fixed_arr::BigArray::<[u8; N]>::deserialize (human-readable)", "repo_location": "src/helpers.rs", "complete": False,
                            "obligation": "N = 2, every ASCII string of length 0..=6 as the document: Ok exactly for 2N hex digits, the value is their decoding; truncated / over-long / non-hex refused; no panic"},
        "binary_document_n2": {"group": "array_codec_binary", "function": "fixed_arr::BigArray::<[u8; N]>::deserialize (binary tuple)", "repo_location": "src/helpers.rs", "complete": False,
                               "obligation": "N = 2, every buffer of 0..=4 bytes: Ok exactly when N bytes are there, exactly N consumed, value = those bytes in order; a sequence that ends early is refused; no panic"},
        "binary_document_n49": {"group": "array_codec_binary", "function": "fixed_arr::BigArray::<[u8; N]>::deserialize (binary tuple)", "repo_location": "src/helpers.rs", "tier": "thorough",
                                "obligation": "the same at the real size N = 49 (G1 point share), buffers of 0..=51 bytes"},
        "round_trip_hex_n1": {"group": "array_codec_round_trip", "function": "fixed_arr::BigArray::<[u8; N]>::{serialize, deserialize}", "repo_location": "src/helpers.rs", "complete": False,
                              "obligation": "N = 1: the human-readable form is one string of 2N characters and decodes to the array it came from (all 256 values)"},
        "round_trip_binary_n3": {"group": "array_codec_round_trip", "function": "fixed_arr::BigArray::<[u8; N]>::{serialize, deserialize}", "repo_location": "src/helpers.rs", "complete": False,
                                 "obligation": "N = 3: the binary form is a tuple of exactly N bytes and decodes to the array it came from"},
    },
    "bound_note": "BOUNDED stand-in: the codec is const-generic in N and is checked at N = 1, 2, 3 (and at the real size 49 for the binary form in the thorough tier) over every document up to N+2 bytes / 2N+2 characters; the real sizes are 33, 49 and 97. The serde front ends are the two small drivers of kani/serde_arr/src/lib.rs (one string; a tuple of bytes read from a buffer), not serde_json / serde_bare themselves.",
    "trusted": ["Kani 0.68 / CBMC 6.11", "the `hex` and `serde` crates at the versions of /repo/Cargo.lock are executed symbolically, not assumed"],
}


def serde_arr(*relevant):
    d = dict(SERDE_ARR)
    d["relevant"] = list(relevant)
    return d


# which failed checks of the array codec matter to which property: C15 the well-formed document decodes to the
# value and the round trip; C16 everything else is refused (and what is accepted is the decoding); C17 no panic
SERDE_ARR_C15 = serde_arr("must be accepted", "must decode", "the value is", "decode(encode", "form is", "consumed", "is_ok()")
SERDE_ARR_C16 = serde_arr("must be refused", "is refused", "the value is", "consumed")
SERDE_ARR_C17 = serde_arr("overflow", "index out of bounds", "panic", "unwrap", "out of range", "attempt to", "dereference", "unreachable", "placeholder message", "does not match destination")


def leaf(*relevant):
    d = dict(LEAF)
    d["relevant"] = list(relevant)
    return d


# which failed checks of the LEAF unit matter to which property
LEAF_FUNCTIONAL_BOTH = leaf("is_zero detects zero", "is_zero only zero", "assertion failed: o")
LEAF_ZERO_DETECTED = leaf("is_zero detects zero")
LEAF_ALL = dict(LEAF)

PROPS = {
    "C01": {
        "units": [leaf("is_zero only zero"), gen("C01", props=["lib_bytes.rs", "C01.rs"]), {"name": "IMPL", "backend": "verus", "props": ["C01_impl.rs"], "tags": ["C01"], "specs": "contracts_impl", "prelude": "impl"}],
        "trusted_base": TB_ALGEBRA,
        "hypotheses": [X_NONID],
        "not_decided": ["serde_bare/serde_json round trips of Signature (derive expansion, L-SERDE)"],
    },
    "C02": {
        "units": [gen("C02"), {"name": "IMPL", "backend": "verus", "props": ["C01_impl.rs", "C02_impl.rs"], "tags": ["C02"], "specs": "contracts_impl", "prelude": "impl"}],
        "trusted_base": TB_ALGEBRA,
        "hypotheses": [X_NONID, "X-INJ / X-DSEP (explicit hypotheses of the lemmas): the hash point of another message or under another tag differs"],
        "not_decided": ["re-randomised projective representations (equal as group elements: the contracts speak about group elements, A-GROUP)"],
    },
    "C04": {
        "units": [LEAF_ZERO_DETECTED, gen("C04", props=["lib_bytes.rs", "C04.rs"])],
        "trusted_base": TB_ALGEBRA,
        "hypotheses": [],
    },
    "C08": {
        "units": [SHARE, gen("C08", props=["lib_shares.rs", "C08.rs"])],
        "level_text": "Deductive proof (Verus) of the blsful side of threshold signing: partial signatures and public-key shares are the share scalar times H(m) resp. G, carry the identifier, are bound to the scheme, verify against the participant's own key share and no other; every recombination wrapper forwards all shares to the combiner, refuses mixed schemes and re-tags with the common scheme; recombination in the exponent is linear (proved from the combiner's structure), so shares of scalar shares that recombine to the key recombine to exactly the whole-key signature / public key. That t of n shares of a split interpolate to the key is vsss-rs (assumed, L-LAGRANGE).",
        "trusted_base": TB_ALGEBRA + ["L-VSSS: Share accessors and checked decoding; combine_shares{,_group} = Err for < 2 shares / zero id / duplicate id / undecodable value, else sum_i basis(ids,i)*y_i (model read from vsss-rs 4.3.8 set.rs; NOT verified)", "L-LAGRANGE: shamir::split_secret returns n shares with ids 1..n for 2<=t<=n<=255 and any >= t distinct ones interpolate to the secret (axiom_interpolation; NOT verified)", "L-STD: X.iter().skip(k).all(f) calls f on the elements from position k on (iter_skip_all, E15)"],
        "hypotheses": [X_NONID],
        "not_decided": ["that t of n shares of a split interpolate back to the key is ASSUMED of vsss-rs (L-LAGRANGE), not proved", "fewer than t shares never yield the key (information-theoretic)"],
    },
    "C09": {
        "units": [gen("C09")],
        "trusted_base": TB_ALGEBRA,
        "hypotheses": [X_NONID, "X-LIN (explicit hypothesis of c09_rejected_for_other_key): x*H(enc pk) != x'*H(enc pk') for the two keys at hand"],
    },
    "C06": {
        "units": [gen("C06", props=["lib_sums.rs", "C06.rs"])],
        "trusted_base": TB_ALGEBRA + ["L-STD-VECKEY: Vec<u8> hashes/compares by content (HashMap key model) and is determined by its content"],
        "hypotheses": ["X-LIN (explicit): the honest aggregate is not the identity; a perturbed list has a different reference sum"],
        "not_decided": ["general permutations are covered through adjacent swaps (proved) composed outside the verifier"],
    },
    "C07": {
        "units": [gen("C07", props=["lib_sums.rs", "C07.rs"])],
        "trusted_base": TB_ALGEBRA,
        "hypotheses": [X_NONID, "X-INJ (explicit): another message hashes to another point", "the accumulated key is not the identity (explicit requires; otherwise C04 applies)"],
    },
    "C03": {
        "units": [gen("C03", props=["lib_sums.rs", "C03.rs"]),
                  {"name": "IMPL", "backend": "verus", "props": ["C03_impl.rs"], "tags": ["C03"], "specs": "contracts_impl", "prelude": "impl"}],
        "trusted_base": TB_ALGEBRA + ["H-HKDF: HKDF extract/expand are uninterpreted functions of their exact inputs", "A-H2C: hash_to_curve(expander, msg, tag) is an uninterpreted function; the expander type is one of its arguments",
                                      "the primitives themselves (SSWU map, expand_message_xmd, HKDF, SHA-256, compressed encoding) are NOT verified: byte-exactness of outputs is conditional on them"],
        "hypotheses": [],
        "not_decided": ["byte-for-byte equality with an independent reference implementation on concrete inputs (execution of the curve arithmetic, not deduction)"],
    },
    "C05": {
        "units": [gen("C05"),
                  {"name": "IMPL", "backend": "verus", "props": ["C05_impl.rs"], "tags": ["C05"], "specs": "contracts_impl", "prelude": "impl", "gen_props": "const_distinct"}],
        "trusted_base": TB_ALGEBRA,
        "hypotheses": [X_NONID, "X-DSEP (explicit): hashing under two distinct tags gives two distinct points"],
    },
    "C10": {
        "safety": True,
        "units": [gen("C10")],
        "trusted_base": TB_ALGEBRA + ["A-TIME: SystemTime/Duration are integers; now() is arbitrary but not before the epoch; duration_since is Err exactly when the argument is later",
                                      "L-STD: x[..n].copy_from_slice(y), x[n..].copy_from_slice(y) and u64::to_le_bytes as modelled by E16 (copy_into_prefix / copy_into_suffix / u64_to_le_bytes)"],
        "hypotheses": [X_NONID, "X-LIN: the response point v = -(x'+y)*sig is not the identity (x'+y != 0)", "X-RO: another timestamp gives another derived challenge"],
        "not_decided": ["'rejected once the timeout has elapsed' is proved as: Ok implies the equation for the derived challenge, and the elapsed-time comparison is part of the verified body; the wall clock itself is an arbitrary value"],
    },
    "C11": {
        "units": [leaf("assertion failed: o"), ZIGZAG, gen("C11", props=["lib_payload.rs", "C11.rs"])],
        "trusted_base": TB_ALGEBRA + ["H-XOF: SHAKE128 is an uninterpreted function of (absorbed input, output length)", "L-ZIGZAG: LEB128 peek/try_from/to_vec facts (prefix, round trip, length <= 19) — checked by Kani on the real uint-zigzag crate (unit DEP_ZIGZAG); the link between the Verus-side spec functions leb/leb_peek/leb_decode and the crate is by these facts", "A-RNG (see C20)",
                                      "byte_xor is PROVED for every length by Verus (zip loop invariant); the Kani harnesses at N in {0,4} are a bounded second opinion"],
        "hypotheses": [X_NONID, "X-INJ / X-DSEP on the hash input enc(U)||V for altered U, V or scheme label", "X-RO: a different secret key unmasks with an unrelated keystream"],
        "bounded_parts": ["Kani second opinion on byte_xor at N in {0, 4} (the unbounded proof is Verus')"],
        "not_decided": ["'decryption under a different secret key never returns the original message' (statistical statement about SHAKE128 output)"],
    },
    "C12": {
        "units": [SHARE, gen("C12", props=["lib_shares.rs", "C12.rs"])],
        "trusted_base": TB_ALGEBRA + ["L-VSSS: Share accessors (identifier, value bytes, checked group/field decoding); combiner model sum_i basis(ids,i)*y_i (see C08); L-LAGRANGE is used only as the hypothesis 'the scalar shares recombine to the key'"],
        "hypotheses": [X_NONID],
        "not_decided": ["'fewer than t shares never return the original message' (information-theoretic / statistical)", "that t of n scalar shares recombine to the key is the hypothesis combined(f) == Some(sk) of c12_shares_decrypt_like_the_whole_key (L-LAGRANGE, vsss-rs)"],
    },
    "C13": {
        "units": [leaf("assertion failed: o"), ZIGZAG, gen("C13", props=["lib_payload.rs", "lib_shares.rs", "C13.rs"])],
        "trusted_base": TB_ALGEBRA + ["H-XOF / H-HASH: SHAKE128 and SHA-256 are uninterpreted functions of their input", "L-ZIGZAG (see C11)", "A-RNG (see C20)", "Gt is determined by its discrete log; gt_enc is injective",
                                      "E3d: a.iter().copied().chain(b.iter().copied()).collect() is modelled as concatenation", "byte_xor: proved by Verus (see C11)"],
        "hypotheses": [X_NONID, "X-RO for 'wrong id / wrong key / tampering yields nothing': another pairing value or another masked byte gives an unrelated alpha and check scalar"],
        "bounded_parts": ["Kani second opinion on byte_xor at N in {0, 4} (the unbounded proof is Verus')"],
        "not_decided": ["that t of n scalar shares recombine to the key (L-LAGRANGE, vsss-rs) is a hypothesis of c13_recombined_signature_opens_like_the_whole_key_signature"],
    },
    "C14": {
        "units": [gen("C14", props=["lib_shares.rs", "C14.rs"])],
        "trusted_base": TB_ALGEBRA + ["H-TRANSCRIPT: the Merlin challenge is an uninterpreted function of the exact (label, message) sequence, the challenge label and the output length", "hash_to_curve into the public-key group (PublicKeyHasher) is uninterpreted",
                                      "E17/E18: opt.unwrap_or_else(|| e) inlined as a match, Scalar::random(&mut g) as random_mut (listed rules; A-RNG)"],
        "hypotheses": ["X-RO on the transcript hash for the binding statements"],
        "not_decided": ["the guards of an honest proof (ciphertext components, responses and challenge non-zero) hold except with negligible probability: explicit hypothesis of c14_honest_proof_verifies", "that t of n scalar shares recombine to the key (L-LAGRANGE, vsss-rs) is a hypothesis of c14_key_from_shares_decrypts"],
    },
    "C15": {
        "units": [LEAF_FUNCTIONAL_BOTH, SERDE_ARR_C15, dict(gen("C15", props=["lib_bytes.rs", "C15.rs"]), text_forms="round_trip")],
        "trusted_base": TB_ALGEBRA + ["A-ENC / scalar_le: to_repr/from_repr are inverse on canonical encodings; the all-zero encoding is exactly the zero scalar",
                                      "L-SERDE: serde derive expansions, serde_bare, serde_json, hex and the curve crates' (de)serializers are NOT verified"],
        "hypotheses": [],
        "not_decided": ["that the serde_bare encodings themselves are lossless is ASSUMED (L-SERDE: one uninterpreted encoding per type with decode(encode(v)) == v); proved on top of it: every byte-form wrapper hands the whole value to the encoder and returns what the decoder yields, the scheme tag <-> variant maps, the length guards", "serde_json / human-readable forms (blsful's own array codec is checked by Kani, unit SERDE_ARRAY, bounded sizes)"],
    },
    "C16": {
        "units": [LEAF_ZERO_DETECTED, SERDE_ARR_C16, gen("C16", props=["lib_bytes.rs", "C16.rs"])],
        "trusted_base": TB_ALGEBRA + ["A-ENC: from_bytes (checked decoder) is Some exactly for the encoding of a subgroup point", "L-SERDE (see C15)"],
        "hypotheses": [],
        "not_decided": ["serde-derived decoders and the curve crates' parsers (truncation handling of serde_bare, JSON); blsful's own array codec behind the share containers is checked by Kani (unit SERDE_ARRAY, bounded sizes)"],
    },
    "C17": {
        "safety": True,
        # the checked (debug-assertion) build view of the payload decryption paths
        "thorough_units": [dict(gen("C17", props=["C17_debug.rs"]), view="debug", tags=["C17D"], needs_witness=True)],
        "units": [leaf("overflow", "index out of bounds", "panic", "unwrap", "out of range", "attempt to", "placeholder message"), ZIGZAG, SERDE_ARR_C17, gen("C17", props=["lib_bytes.rs", "C17.rs"])],
        "trusted_base": TB_ALGEBRA + ["A-TIME (see C10)", "L-SERDE: serde / serde_bare / serde_json decoders and the curve crates' parsers are not verified"],
        "hypotheses": [],
        "not_decided": ["serde-derived decoders (serde_bare / serde_json) and the curve crates' own parsers", "termination of the two probabilistic retry loops (zero scalar re-draw)"],
    },
    "C18": {
        "units": [dict(gen("C18"), layout_pins=True, text_forms="pinned"),
                  {"name": "IMPL", "backend": "verus", "props": ["C18_impl.rs"], "tags": ["C18"], "specs": "contracts_impl", "prelude": "impl"}],
        "level_text": "Deductive proof (Verus) that every producer and consumer of blsful's own wire formats implements the PINNED reference constructions (spec functions frozen from the pinned release: framing, masks, hash inputs, transcript labels and order, salts, tags, KeyGen parameters, curve tag bytes), plus a syntactic pin of the field / variant order of every serialized data type. Decoding a golden corpus with real curve arithmetic is execution, not deduction, and is not part of this check.",
        "trusted_base": TB_ALGEBRA + ["H-*: the hash / XOF / HKDF / transcript primitives are uninterpreted functions of their exact inputs", "L-SERDE: the serde_bare layout is determined by field and variant order (pinned syntactically) — the derive expansions themselves are not verified"],
        "hypotheses": [],
        "not_decided": ["acceptance of a golden corpus produced by the pinned release (needs execution of the real curve arithmetic)", "interoperability with an independent implementation on concrete inputs"],
    },
    "C20": {
        "units": [gen("C20")],
        "level_text": "Deductive proof (Verus) of the PROVENANCE of every ephemeral value: each randomized entry point computes its ephemeral scalar/mask from bytes drawn in this call from a generator created by ChaCha20Rng::from_entropy() in this call (or from the caller's generator for the *_with_rng forms). The statistical statement (no collision over 4096 calls, threads, processes) is reduced to the assumption that the OS entropy source does not repeat.",
        "trusted_base": TB_ALGEBRA + ["A-RNG: from_entropy() yields an entropy-seeded generator whose seeds never repeat across calls/threads/processes; gen()/Scalar::random return draw(state) and advance the state; from_seed and clones are NOT entropy-seeded"],
        "hypotheses": [],
        "not_decided": ["freshness across sequences of calls, threads and processes (a property of the OS entropy source and of histories, not of one call)", "SecretKey::split's polynomial coefficients are drawn inside vsss-rs (shamir::split_secret receives the fresh generator; what it does with it is L-VSSS)"],
    },
}

NOT_APPLICABLE = {
    "C19": "equates the behaviour of two external arithmetic back ends (blst vs pure Rust); blsful's own source is identical under both features, every contract here treats the back end as one assumed interface, so no contract on blsful code can state or decide it (DESIGN.md section 7)",
}

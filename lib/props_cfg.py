"""Per-property configuration: which units decide it, what is trusted, what is not decided."""

TB_ALGEBRA = [
    "A-ORDER: r() is prime (used as: r > 1, no zero divisors in Z_r) — axiom_r_gt_1, axiom_no_zero_divisors",
    "A-GROUP: G1/G2/Gt/Scalar are opaque types determined by their discrete log in [0,r); +,-,neg,*scalar act on the dlog; by-ref and by-value operators agree",
    "A-PAIRING: Pairing::pairing(points) has dlog = sum dl(a_i)*dl(b_i) (proved for both implementors from multi_miller_loop's contract in units G1IMPL/G2IMPL)",
    "A-ENC: to_bytes is injective with a fixed length per group",
    "L-SUBTLE: Choice is a bool, CtOption is (value, is_some)",
    "L-STD: vstd specifications of Vec/slice/Option/Result; no allocation exceeds isize::MAX bytes",
    "H-HASH: hash_to_curve / hash_to_scalar are uninterpreted functions of (message, tag)",
    "extractor rules E1..E11 (DESIGN.md 2.2) preserve the meaning of the extracted functions",
]

X_NONID = "X-NONID (explicit hypothesis of the harness): H(m, dst) is not the identity point for the messages at hand"

GEN = {"name": "GENERIC", "backend": "verus"}


def gen(prop, props=None, **kw):
    d = dict(GEN)
    d["props"] = ["lib_algebra.rs"] + (props or [prop + ".rs"])
    d["tags"] = [prop]
    d.update(kw)
    return d


PROPS = {
    "C01": {
        "units": [gen("C01"), {"name": "IMPL", "backend": "verus", "props": ["C01_impl.rs"], "tags": ["C01"], "specs": "contracts_impl", "prelude": "impl"}],
        "trusted_base": TB_ALGEBRA,
        "hypotheses": [X_NONID],
        "not_decided": ["serde_bare/serde_json round trips of Signature (derive expansion, L-SERDE)"],
    },
    "C02": {
        "units": [gen("C02"), {"name": "IMPL", "backend": "verus", "props": ["C01_impl.rs"], "tags": ["C02"], "specs": "contracts_impl", "prelude": "impl"}],
        "trusted_base": TB_ALGEBRA,
        "hypotheses": [X_NONID, "X-INJ / X-DSEP (explicit hypotheses of the lemmas): the hash point of another message or under another tag differs"],
        "not_decided": ["re-randomised projective representations (equal as group elements: the contracts speak about group elements, A-GROUP)"],
    },
    "C04": {
        "units": [gen("C04")],
        "trusted_base": TB_ALGEBRA,
        "hypotheses": [],
    },
    "C09": {
        "units": [gen("C09")],
        "trusted_base": TB_ALGEBRA,
        "hypotheses": [X_NONID, "X-LIN (explicit hypothesis of c09_rejected_for_other_key): x*H(enc pk) != x'*H(enc pk') for the two keys at hand"],
    },
    "C06": {
        "units": [gen("C06", props=["lib_sums.rs", "C06.rs"])],
        "trusted_base": TB_ALGEBRA + ["L-STD-VECKEY: Vec<u8> hashes/compares by content (HashMap key model) and is determined by its content"],
        "hypotheses": ["X-LIN (explicit): the honest aggregate is not the identity; a perturbed list has a different reference sum"],
        "not_decided": ["general permutations are covered through adjacent swaps (proved) composed outside the verifier"],
    },
    "C07": {
        "units": [gen("C07", props=["lib_sums.rs", "C07.rs"])],
        "trusted_base": TB_ALGEBRA,
        "hypotheses": [X_NONID, "X-INJ (explicit): another message hashes to another point", "the accumulated key is not the identity (explicit requires; otherwise C04 applies)"],
    },
    "C03": {
        "units": [gen("C03"),
                  {"name": "IMPL", "backend": "verus", "props": ["C03_impl.rs"], "tags": ["C03"], "specs": "contracts_impl", "prelude": "impl"}],
        "trusted_base": TB_ALGEBRA + ["H-HKDF: HKDF extract/expand are uninterpreted functions of their exact inputs", "A-H2C: hash_to_curve(expander, msg, tag) is an uninterpreted function; the expander type is one of its arguments",
                                      "the primitives themselves (SSWU map, expand_message_xmd, HKDF, SHA-256, compressed encoding) are NOT verified: byte-exactness of outputs is conditional on them"],
        "hypotheses": [],
        "not_decided": ["byte-for-byte equality with an independent reference implementation on concrete inputs (execution of the curve arithmetic, not deduction)"],
    },
    "C05": {
        "units": [gen("C05"),
                  {"name": "IMPL", "backend": "verus", "props": ["C05_impl.rs"], "tags": ["C05"], "specs": "contracts_impl", "prelude": "impl", "gen_props": "const_distinct"}],
        "trusted_base": TB_ALGEBRA,
        "hypotheses": [X_NONID, "X-DSEP (explicit): hashing under two distinct tags gives two distinct points"],
    },
    "C10": {
        "units": [gen("C10")],
        "trusted_base": TB_ALGEBRA + ["A-TIME: SystemTime/Duration are integers; now() is arbitrary but not before the epoch; duration_since is Err exactly when the argument is later",
                                      "BlsSignatureProof::compute_y is NOT verified (mutable sub-slice copies are outside the Verus subset): its contract res == H(enc(u) || le64(t), SALT) is assumed"],
        "hypotheses": [X_NONID, "X-LIN: the response point v = -(x'+y)*sig is not the identity (x'+y != 0)", "X-RO: another timestamp gives another derived challenge"],
        "not_decided": ["'rejected once the timeout has elapsed' is proved as: Ok implies the equation for the derived challenge, and the elapsed-time comparison is part of the verified body; the wall clock itself is an arbitrary value"],
    },
}

NOT_APPLICABLE = {
    "C19": "equates the behaviour of two external arithmetic back ends (blst vs pure Rust); blsful's own source is identical under both features, every contract here treats the back end as one assumed interface, so no contract on blsful code can state or decide it (DESIGN.md section 7)",
}

"""Kani units (filled in later)."""
import vdrv


def kani_unit(prop, unit, tier, seed, workdir):
    raise vdrv.ToolFailure("kani units not implemented yet")

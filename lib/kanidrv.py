"""Kani units: fixed-size byte-level leaf functions, extracted UNCHANGED from /repo on every run
into a small harness crate (kani/<crate>/), checked by `cargo kani` (CBMC).  A harness over a
fully symbolic fixed-size input with an unwinding bound above the size (unwinding assertions on)
is a complete proof at that size; anything smaller than the real size is labelled bounded."""
import os
import re
import shutil
import subprocess
import time

import vdrv


def kani_unit(prop, unit, tier, seed, workdir):
    src_crate = os.path.join(vdrv.VERIF, "kani", unit["crate"])
    dst = os.path.join(workdir, "kani_" + unit["crate"])
    if os.path.exists(dst):
        shutil.rmtree(dst)
    shutil.copytree(src_crate, dst, ignore=shutil.ignore_patterns("target"))
    # extraction of the original item text (dependency units check an assumption on the real
    # dependency crate and extract nothing from /repo; the version is the one of /repo/Cargo.lock)
    ex = os.path.join(dst, "src", "extracted.rs")
    if unit.get("raw"):
        cmd = [vdrv.EXTRACTOR, "--repo", vdrv.REPO, "--out", ex]
        for sel in unit["raw"]:
            cmd += ["--raw", sel]
        r = vdrv.sh(cmd)
        if r.returncode != 0:
            raise vdrv.ToolFailure("kani extraction failed: " + r.stderr.strip())
        txt = open(ex).read()
        open(ex, "w").write(unit.get("prepend", "") + "\n" + txt)
    else:
        open(ex, "w").write("// dependency unit: nothing is extracted from /repo\n")
    lock = os.path.join(vdrv.REPO, "Cargo.lock")
    if unit.get("use_repo_lock") and os.path.exists(lock):
        shutil.copy(lock, os.path.join(dst, "Cargo.lock"))
    # name -> {obligation, complete: bool, note, tier}; a harness marked tier "thorough" runs in that tier only
    harnesses = {h: i for h, i in unit["harnesses"].items() if i.get("tier", "quick") == "quick" or tier == "thorough"}
    env = dict(os.environ, CARGO_NET_OFFLINE="true", CARGO_TARGET_DIR=os.path.join(vdrv.WORK, "kani-target-" + unit["crate"]))
    cmdk = ["cargo", "kani"] + unit.get("kani_args", [])
    for h in harnesses:
        cmdk += ["--harness", h]
    t0 = time.time()
    try:
        kr = subprocess.run(cmdk, cwd=dst, env=env, stdout=subprocess.PIPE, stderr=subprocess.STDOUT, text=True, timeout=unit.get("timeout", 1500))
    except subprocess.TimeoutExpired:
        raise vdrv.ToolFailure("cargo kani timed out")
    wall = time.time() - t0
    out = kr.stdout
    # split per harness
    secs = re.split(r"^Checking harness ", out, flags=re.M)
    res = {}
    for sec in secs[1:]:
        name = sec.split("...")[0].strip().split("::")[-1]
        m = re.search(r"\*\* (\d+) of (\d+) failed", sec)
        ok = "VERIFICATION:- SUCCESSFUL" in sec
        failed_checks = re.findall(r"^Failed Checks: (.*)\n File: \"(.*?)\", line (\d+), in (.*)$", sec, flags=re.M)
        unwind_fail = bool(re.search(r"Failed Checks: unwinding assertion", sec))
        res[name] = {"ok": ok, "failed": int(m.group(1)) if m else None, "total": int(m.group(2)) if m else 0,
                     "failed_checks": failed_checks, "unwind_fail": unwind_fail, "text": sec[-3000:]}
    missing = [h for h in harnesses if h not in res]
    if missing:
        raise vdrv.ToolFailure("kani produced no result for harness(es) %s; output tail:\n%s" % (missing, out[-3000:]))
    failures = []
    obligations = 0
    discharged = 0
    samples = []
    for h, info in harnesses.items():
        r_ = res[h]
        obligations += r_["total"]
        if r_["unwind_fail"]:
            raise vdrv.ToolFailure("unwinding assertion failed in %s: the stated bound is too small (tool failure, not a violation)" % h)
        if r_["ok"]:
            discharged += r_["total"]
            if len(samples) < 3:
                samples.append({"obligation": "kani:%s — %s" % (h, info["obligation"]), "checks": r_["total"], "backend": "kani/cbmc", "complete_at_real_size": info.get("complete", True)})
        else:
            discharged += r_["total"] - (r_["failed"] or 1)
            fc = r_["failed_checks"]
            rel = unit.get("relevant")
            if rel and fc and not any(any(k in c[0] for k in rel) for c in fc):
                import sys
                print("NOTE property=%s: failed check(s) of %s (%s) are outside this property" % (prop, h, "; ".join(c[0] for c in fc)), file=sys.stderr)
                continue
            if rel:
                fc = [c for c in fc if any(k in c[0] for k in rel)] or fc
            msg = "; ".join("%s (%s:%s)" % (c[0], c[1], c[2]) for c in fc) or "assertion failed"
            kind = fc[0][0].strip().replace(" ", "_") if fc else "assertion_failed"
            failures.append({"id": "kani:%s#%s" % (info.get("group", h), kind), "message": "%s: %s" % (info["obligation"], msg),
                             "function": info.get("function", ""), "repo_location": info.get("repo_location", ""),
                             "verifier_output": r_["text"], "unit": unit["name"], "backend": "kani", "harness": h})
    return {"unit": unit["name"], "backend": "kani", "kind": "semantic" if failures else "ok", "failures": failures,
            "obligations": obligations, "discharged": discharged, "harnesses": list(harnesses), "wall_s": round(wall, 2),
            "cmd": "cd %s && CARGO_NET_OFFLINE=true %s" % (dst, " ".join(cmdk)), "samples": samples,
            "bounded": [h for h, i in harnesses.items() if not i.get("complete", True)],
            "bound_note": unit.get("bound_note", ""), "trusted": unit.get("trusted", [])}

#!/bin/bash
# usage: try_patch_scratch.sh <patch.diff> <prop>...  — applies a patch to a scratch copy of /repo/src and runs the quick
# checks on it (VERIF_REPO); /repo itself is not touched.  Witness replay runs against /repo (unchanged).
P=$1; shift
S=/tmp/patchrepo_$$; rm -rf $S; mkdir -p $S; cp -r /repo/src $S/src; cp /repo/Cargo.toml /repo/Cargo.lock $S/ 2>/dev/null
(cd $S && patch -s -p1 < $P) || { echo "patch failed"; rm -rf $S; exit 2; }
for p in "$@"; do
  VERIF_REPO=$S VERIF_NO_EVIDENCE=1 /verif/check $p --tier quick > /tmp/patchscr_$$_$p.txt 2>&1; rc=$?
  echo "$(basename $(dirname $P)) $p rc=$rc $(grep -E 'VIOLATION|TOOL-FAILURE|FAILED-OBLIGATION' /tmp/patchscr_$$_$p.txt | head -4 | cut -c1-260)"
  rm -f /tmp/patchscr_$$_$p.txt
done
rm -rf $S

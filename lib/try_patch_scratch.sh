#!/bin/bash
# usage: try_patch_scratch.sh <patch.diff> <prop>...  — applies a patch to a scratch copy of the crate (src, Cargo.toml,
# Cargo.lock) and runs the quick checks on it (VERIF_REPO); /repo itself is not touched.  The witness crate is built
# against the scratch copy too (lib/witness.py), so a failing input is searched for on the patched code.
P=$1; shift
S=/tmp/patchrepo_$$; rm -rf $S; mkdir -p $S; B=${VERIF_BASE:-/repo}; cp -r $B/src $S/src; cp $B/Cargo.toml $B/Cargo.lock $S/ 2>/dev/null
(cd $S && patch -s -p1 < $P) || { echo "patch failed"; rm -rf $S; exit 2; }
W=${VERIF_WORK:-/tmp/patchwork_$$}
for p in "$@"; do
  VERIF_REPO=$S VERIF_NO_EVIDENCE=1 VERIF_WORK=$W /verif/check $p --tier quick > /tmp/patchscr_$$_$p.txt 2>&1; rc=$?
  echo "$(basename $(dirname $P)) $p rc=$rc $(grep -E 'VIOLATION|TOOL-FAILURE|FAILED-OBLIGATION' /tmp/patchscr_$$_$p.txt | head -4 | cut -c1-260)"
  rm -f /tmp/patchscr_$$_$p.txt
done
rm -rf $S; [ -z "$VERIF_WORK" ] && rm -rf $W

#!/bin/bash
# development aid: (re)write contracts*/pinned_names.json from the CURRENT /repo tree — run after a
# contract is written or changed, on a tree where the checks pass
cd "$(dirname "$0")/.."
for d in contracts contracts_impl; do
  args=""; for f in $d/*.vspec; do args="$args --spec $f"; done
  extractor/target/release/extractor --repo /repo $args --pin-names > $d/pinned_names.json.new && mv $d/pinned_names.json.new $d/pinned_names.json
  echo "$d: $(python3 -c "import json;print(len(json.load(open('$d/pinned_names.json'))))") functions"
done

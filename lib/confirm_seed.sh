#!/bin/bash
# usage: confirm_seed.sh <worktree> <seed-name> <property> <demo-test-name>
# confirms in the scratch worktree: (1) existing suite passes with the change, (2) demo fails with the
# change, (3) demo passes without it; then stores the seed under /verif/seeded/<seed-name>/
WT=$1; NAME=$2; PROP=$3; DEMO=$4
OUT=/verif/seeded/$NAME
mkdir -p $OUT
cd $WT || exit 2
cp seed/patch.diff $OUT/patch.diff
cp seed/$DEMO.rs $OUT/$DEMO.rs
cp seed/notes.md $OUT/agent_notes.md 2>/dev/null
git checkout -q -- src; git apply $OUT/patch.diff || { echo "patch does not apply"; exit 2; }
mv tests/$DEMO.rs /tmp/$DEMO.rs.aside
S=$(cargo test --offline 2>&1 | grep -E "^test result" | awk '{p+=$4; f+=$6} END {print p" passed "f" failed"}')
mv /tmp/$DEMO.rs.aside tests/$DEMO.rs
W=$(cargo test --offline --test $DEMO 2>&1 | grep -E "^test result" | head -1)
git checkout -q -- src
WO=$(cargo test --offline --test $DEMO 2>&1 | grep -E "^test result" | head -1)
git apply $OUT/patch.diff
echo "suite_with_change: $S"; echo "demo_with_change: $W"; echo "demo_without_change: $WO"
python3 - <<PY
import json
json.dump({"property": "$PROP", "seed": "$NAME",
  "confirmed": {"existing_suite_with_change": "$S", "demo_with_change": "$W", "demo_without_change": "$WO"},
  "how_confirmed": "scratch worktree $WT: git apply patch.diff; cargo test --offline (demo moved aside); cargo test --offline --test $DEMO; git checkout -- src; cargo test --offline --test $DEMO"},
  open("$OUT/meta.json","w"), indent=1)
PY

"""development aid: semantics-preserving edits of /repo/src applied to a scratch copy; no check may alarm.
usage: benign_edits.py <edit-name> <prop>..."""
import sys,re,shutil,os,subprocess
edits = {
 "guards_swapped": ("traits/sig_core.rs", """        if sig.is_identity().into() {
            return Err(BlsError::InvalidInputs(
                "signature is the identity point".to_string(),
            ));
        }
        if pk.is_identity().into() {
            return Err(BlsError::InvalidInputs(
                "public key is the identity point".to_string(),
            ));
        }
        let a = Self::hash_to_point::<B, C>(msg, dst);""", """        if pk.is_identity().into() {
            return Err(BlsError::InvalidInputs(
                "public key is the identity point".to_string(),
            ));
        }
        if sig.is_identity().into() {
            return Err(BlsError::InvalidInputs(
                "signature is the identity point".to_string(),
            ));
        }
        let a = Self::hash_to_point::<B, C>(msg, dst);"""),
 "core_sign_let": ("traits/sig_core.rs", "        Ok(Self::hash_to_point(msg, dst) * sk)", "        let h = Self::hash_to_point(msg, dst);\n        Ok(h * sk)"),
 "error_text": ("traits/sig_core.rs", '"signing key is zero".to_string()', '"the signing key must not be zero".to_string()'),
 "verify_arms_reordered": ("signature.rs", """            Self::Basic(sig) => <C as BlsSignatureBasic>::verify(pk.0, *sig, msg),
            Self::MessageAugmentation(sig) => {
                <C as BlsSignatureMessageAugmentation>::verify(pk.0, *sig, msg)
            }
            Self::ProofOfPossession(sig) => <C as BlsSignaturePop>::verify(pk.0, *sig, msg),""", """            Self::ProofOfPossession(sig) => <C as BlsSignaturePop>::verify(pk.0, *sig, msg),
            Self::MessageAugmentation(sig) => {
                <C as BlsSignatureMessageAugmentation>::verify(pk.0, *sig, msg)
            }
            Self::Basic(sig) => <C as BlsSignatureBasic>::verify(pk.0, *sig, msg),"""),
 "elgamal_lets_reordered": ("traits/elgamal.rs", """        let ek = generator * message;
        debug_assert_eq!(ek.is_identity().unwrap_u8(), 0u8);
        let c1 = Self::PublicKey::generator() * blinder;
        debug_assert_eq!(c1.is_identity().unwrap_u8(), 0u8);""", """        let c1 = Self::PublicKey::generator() * blinder;
        debug_assert_eq!(c1.is_identity().unwrap_u8(), 0u8);
        let ek = generator * message;
        debug_assert_eq!(ek.is_identity().unwrap_u8(), 0u8);"""),
 "decrypt_len_var": ("traits/sign_crypt.rs", """            if len <= plaintext.len() - overhead {
                return CtOption::new(plaintext[overhead..overhead + len].to_vec(), valid);
            }""", """            let available = plaintext.len() - overhead;
            if len <= available {
                let end = overhead + len;
                return CtOption::new(plaintext[overhead..end].to_vec(), valid);
            }"""),
}
name=sys.argv[1]; props=sys.argv[2:]
f,old,new=edits[name]
S="/tmp/benign_"+name
shutil.rmtree(S,ignore_errors=True); os.makedirs(S); shutil.copytree("/repo/src",S+"/src")
p=S+"/src/"+f; s=open(p).read(); assert s.count(old)==1,(name,s.count(old)); open(p,"w").write(s.replace(old,new,1))
for pr in props:
    r=subprocess.run(["/verif/check",pr,"--tier","quick"],env=dict(os.environ,VERIF_REPO=S,VERIF_NO_EVIDENCE="1",VERIF_WORK="/tmp/benign_work_"+name),capture_output=True,text=True)
    lines=[l for l in (r.stdout+r.stderr).splitlines() if "VIOLATION" in l or "TOOL-FAILURE" in l or "FAILED-OB" in l]
    print(name,pr,"rc=%d"%r.returncode,(lines[0][:200] if lines else ""))
shutil.rmtree(S,ignore_errors=True); shutil.rmtree("/tmp/benign_work_"+name,ignore_errors=True)

#!/usr/bin/env python3
import sys,os
sys.path.insert(0,'/verif/lib')
import vdrv, glob
prop=sys.argv[1]
vdrv.EXTRACTOR='/verif/extractor/target/debug/extractor'
specs=sorted(glob.glob('/verif/contracts_impl/*.vspec'))
pf=['/verif/props/%s_impl.rs' % prop]
try:
    path,layout=vdrv.assemble("IMPL_"+prop, specs, [prop], "release", pf, '/verif/build/dev', prelude_files=vdrv.PRELUDE_IMPL)
except vdrv.ToolFailure as e:
    print("TOOL", e); sys.exit()
run=vdrv.run_verus(path)
k,i=vdrv.classify(run)
print(k); print(run['stderr'][-6000:] if k!='ok' else i)

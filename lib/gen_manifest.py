#!/usr/bin/env python3
"""writes /verif/MANIFEST.json from lib/props_cfg.py (so the two never disagree)"""
import json, os, sys
sys.path.insert(0, os.path.dirname(os.path.abspath(__file__)))
import props_cfg
VERIF = os.path.dirname(os.path.dirname(os.path.abspath(__file__)))
all_ids = [json.loads(l)["id"] for l in open(os.path.join(VERIF, "properties.jsonl"))]
checks = []
for pid in all_ids:
    cfg = props_cfg.PROPS.get(pid)
    if not cfg:
        continue
    checks.append({
        "property_id": pid,
        "quick_cmd": "./check %s --tier quick" % pid,
        "thorough_cmd": "./check %s --tier thorough" % pid,
        "evidence_file": "evidence/%s.json" % pid,
        "replay_cmd_template": "./check --replay {path}",
        "engine": "verus-units" if all(u.get("backend", "verus") == "verus" for u in cfg["units"]) else "verus-units+kani-units",
        "level_claimed": {
            "category": "proof",
            "text": cfg.get("level_text", "Deductive proof (Verus/Z3, unbounded) that the real functions in the property's cone, extracted mechanically from /repo on every run, meet contracts from which the property follows; fixed-size byte-level leaves by Kani/CBMC at their real sizes."),
            "design_ref": "DESIGN.md section 5 (%s)" % pid,
        },
        "level_note": cfg.get("level_note", "Trusted: the assumed contracts of the curve/hash/serde dependencies (DESIGN.md section 3), the extraction rules E0-E18, Verus/Z3 and Kani/CBMC themselves. ") + (" Not decided here: " + "; ".join(cfg["not_decided"]) if cfg.get("not_decided") else ""),
        "technique": cfg.get("technique", "contract-based deductive verification: Verus requires/ensures/invariants on mechanically extracted real functions"),
    })
na = []
for pid in all_ids:
    if pid not in props_cfg.PROPS:
        na.append({"property_id": pid, "reason": props_cfg.NOT_APPLICABLE.get(pid, "no check built yet for this property in this framework")})
m = {
    "version": 1,
    "setup_cmd": "./setup.sh",
    "hooks": {
        "guard": "none",
        "enable": "no source hooks: contracts live in /verif/contracts and are spliced into text extracted from /repo on every run",
        "baseline_off_cmd": "cd /repo && cargo nextest run --workspace --no-fail-fast --offline || cargo test --workspace --no-fail-fast --offline",
        "source_commits": [],
        "add_only": True,
    },
    "engines": [
        {"name": "verus-units", "path": "check", "serves_properties": [c["property_id"] for c in checks], "kind_free_text": "Verus 0.2026.09.13 on units assembled from prelude/ (assumed dependency contracts), functions extracted from /repo/src by extractor/ with contracts from contracts/*.vspec, and props/*.rs harnesses"},
        {"name": "kani-units", "path": "lib/kanidrv.py", "serves_properties": [], "kind_free_text": "Kani 0.68 function contracts / full-domain harnesses on extracted fixed-size leaf functions"},
        {"name": "replay", "path": "replay/", "serves_properties": [c["property_id"] for c in checks], "kind_free_text": "witness families run against the real crate to turn a failed obligation into a concrete failing input"},
    ],
    "checks": checks,
    "not_applicable": na,
    "notes": "See DESIGN.md. exit 2 of a check = tool failure (lost anchor, unsupported construct, rlimit), never a violation.",
}
json.dump(m, open(os.path.join(VERIF, "MANIFEST.json"), "w"), indent=1)
print("MANIFEST.json: %d checks, %d not applicable" % (len(checks), len(na)))

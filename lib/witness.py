"""Witness search and replay against the real crate (DESIGN.md 2.6).  Verus gives no model, so
the failed obligation is mapped to a family of concrete candidate inputs which are run against
/repo's current tree by the `replay` crate."""
import json
import os
import re
import subprocess

import vdrv

REPLAY_DIR = os.path.join(vdrv.VERIF, "replay")


def build():
    env = dict(os.environ, CARGO_NET_OFFLINE="true", VERIF_REPO=vdrv.REPO)
    crate = REPLAY_DIR
    tgt = os.path.join(vdrv.BUILD, "replay-target")
    if os.path.abspath(vdrv.REPO) != "/repo":
        # a scratch copy of the crate under check (development aids: seeds and refactors tried without touching
        # /repo): the replay crate is copied with its dependency path pointing at the copy
        if not os.path.exists(os.path.join(vdrv.REPO, "Cargo.toml")):
            return None, "the scratch tree %s has no Cargo.toml: no witness can be run against it" % vdrv.REPO
        import shutil
        crate = os.path.join(vdrv.WORK, "replay-crate")
        if os.path.exists(crate):
            shutil.rmtree(crate)
        shutil.copytree(REPLAY_DIR, crate, ignore=shutil.ignore_patterns("target"))
        ct = os.path.join(crate, "Cargo.toml")
        txt = open(ct).read().replace('path = "/repo"', 'path = "%s"' % os.path.abspath(vdrv.REPO))
        open(ct, "w").write(txt)
        tgt = os.path.join(vdrv.WORK, "replay-target")
        warm = os.path.join(vdrv.BUILD, "replay-target")
        if not os.path.exists(tgt) and os.path.exists(warm):
            shutil.copytree(warm, tgt)
    r = subprocess.run(["cargo", "build", "--release", "--offline", "--target-dir", tgt], cwd=crate, env=env,
                       stdout=subprocess.PIPE, stderr=subprocess.PIPE, text=True, timeout=1500)
    if r.returncode != 0:
        return None, r.stderr[-2000:]
    return os.path.join(tgt, "release", "witness"), None


def known_witnesses():
    """the failing inputs of the recorded known findings: they reproduce on the unchanged tree by
    definition and must not be attached to another obligation as its witness"""
    out = []
    path = os.path.join(vdrv.VERIF, "known_findings.txt")
    if os.path.exists(path):
        for line in open(path):
            if line.startswith("finding:"):
                for m in re.finditer(r"witness: (\{[^}]*\})", line):
                    try:
                        out.append(json.loads(m.group(1)))
                    except Exception:
                        pass
    return out


def search(prop, violations):
    if not os.path.exists(os.path.join(REPLAY_DIR, "Cargo.toml")):
        return {"note": "no witness families available"}
    exe, err = build()
    if exe is None:
        import sys
        print("NOTE property=%s: the witness crate does not build against the current tree, no failing input can be searched for: %s" % (prop, (err or "").strip().splitlines()[-1] if err else ""), file=sys.stderr)
        return {"note": "replay crate does not build against the current tree", "build_error": err}
    fams = sorted(set([prop] + [v.get("family", prop) for v in violations]))
    out = {"families": fams, "tried": 0}
    for fam in fams:
        try:
            r = subprocess.run([exe, "search", fam], stdout=subprocess.PIPE, stderr=subprocess.PIPE, text=True, timeout=600,
                               env=dict(os.environ, VERIF_WITNESS_EXCLUDE=json.dumps(known_witnesses())))
        except subprocess.TimeoutExpired:
            continue
        for line in r.stdout.splitlines():
            if line.startswith("TRIED "):
                out["tried"] += int(line.split()[1])
            if line.startswith("FAIL "):
                out["failing_input"] = json.loads(line[5:])
                out["family"] = fam
                return out
    return out


def replay(path):
    d = json.load(open(path))
    print("property:", d["property"])
    for ob in d["failed_obligations"]:
        print("failed obligation:", ob["id"], ob.get("repo_location", ""))
        print(ob["verifier_output"])
    w = d.get("witness") or {}
    fi = w.get("failing_input")
    if not fi:
        print("no failing input was found for this violation (no-failing-input-found); the verifier output above is the evidence")
        return 0
    exe, err = build()
    if exe is None:
        print("replay crate does not build:", err)
        return 2
    r = subprocess.run([exe, "replay", json.dumps(fi)], stdout=subprocess.PIPE, stderr=subprocess.PIPE, text=True, timeout=600)
    print(r.stdout)
    print(r.stderr[-2000:])
    return 1 if "REPRODUCED" in r.stdout else 0

#!/bin/bash
# usage: try_seed.sh <seed-name> <prop>...   applies the seed to /repo, runs the checks, undoes it
NAME=$1; shift
git -C /repo apply /verif/seeded/$NAME/patch.diff || exit 2
for p in "$@"; do
  VERIF_NO_EVIDENCE=1 /verif/check $p > /tmp/seedrun_${NAME}_$p.txt 2>&1; rc=$?
  echo "$NAME $p rc=$rc $(grep -E 'VIOLATION|TOOL-FAILURE|FAILED-OBLIGATION' /tmp/seedrun_${NAME}_$p.txt | head -8 | cut -c1-260)"
done
git -C /repo checkout -- .

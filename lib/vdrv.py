"""Driver library: assemble Verus units from /repo's current source, run Verus, classify.

Nothing here decides a property by itself: the deciding step is Verus (or Kani) accepting every
obligation of the assembled unit.  See DESIGN.md §2.5.
"""
import hashlib
import json
import os
import re
import subprocess
import sys
import time

VERIF = os.path.dirname(os.path.dirname(os.path.abspath(__file__)))
REPO = os.environ.get("VERIF_REPO", "/repo")
BUILD = os.path.join(VERIF, "build")
# per-invocation scratch directory for generated units (the mutation self-test runs several checks of the
# same property side by side); cargo target directories stay shared under BUILD
WORK = os.environ.get("VERIF_WORK", BUILD)
EXTRACTOR = os.path.join(VERIF, "extractor", "target", "release", "extractor")

PRELUDE_ORDER = [
    "00_algebra.rs",
    "10_scalar.rs",
    ("20_group.tmpl", "Sig", "sig"),
    ("20_group.tmpl", "Pk", "pk"),
    ("21_group_dec.tmpl", "Sig", "sig"),
    ("21_group_dec.tmpl", "Pk", "pk"),
    "30_gt.rs",
    "31_abstract_spec.rs",
    "40_abstract_impl.rs",
    "50_bytes.rs",
    "60_ctoption_repr.rs",
    "60_shares.rs",
    "61_combine.rs",
    "62_serde_bare.rs",
    "70_misc.rs",
    "80_time.rs",
    "85_xof_leb.rs",
    "90_elgamal_deps.rs",
]

HEADER = """#![feature(allocator_api)]
#![allow(unused_imports, unused_variables, unused_mut, non_snake_case, dead_code, unused_parens, unused_braces, non_camel_case_types, non_upper_case_globals, unreachable_code, unused_assignments, unused_must_use)]
use vstd::prelude::*;
verus! {
"""


PRELUDE_IMPL = [
    "00_algebra.rs",
    "10_scalar.rs",
    ("20_group.tmpl", "G1Projective", "g1"),
    ("20_group.tmpl", "G2Projective", "g2"),
    "30_gt.rs",
    "36_impl_deps.rs",
    "50_bytes.rs",
]


class ToolFailure(Exception):
    """Anything that is not a semantic verification failure: exit 2, never a VIOLATION."""


def sh(cmd, **kw):
    return subprocess.run(cmd, stdout=subprocess.PIPE, stderr=subprocess.PIPE, text=True, **kw)


def ensure_extractor():
    src_dir = os.path.join(VERIF, "extractor")
    newest = 0
    for root, _, files in os.walk(os.path.join(src_dir, "src")):
        for f in files:
            newest = max(newest, os.path.getmtime(os.path.join(root, f)))
    newest = max(newest, os.path.getmtime(os.path.join(src_dir, "Cargo.toml")))
    if os.path.exists(EXTRACTOR) and os.path.getmtime(EXTRACTOR) >= newest:
        return
    env = dict(os.environ, CARGO_NET_OFFLINE="true")
    r = sh(["cargo", "build", "--release", "--offline"], cwd=src_dir, env=env)
    if r.returncode != 0:
        raise ToolFailure("extractor build failed:\n" + r.stderr[-3000:])


def prelude_text(files=None):
    out = []
    for ent in (files or PRELUDE_ORDER):
        if isinstance(ent, tuple):
            fn, upper, lower = ent
            p = os.path.join(VERIF, "prelude", fn)
            t = open(p).read().replace("GROUP", upper).replace("LOWER", lower)
        else:
            p = os.path.join(VERIF, "prelude", ent)
            if not os.path.exists(p):
                continue
            t = open(p).read()
        out.append(t)
    return "\n".join(out)


def broadcast_names(prelude):
    """every `pub broadcast axiom fn NAME` of the prelude (range/bijection/structure axioms)"""
    return re.findall(r"pub broadcast axiom fn (\w+)", prelude)


def run_extractor(specs, tags, view, out_rs, out_map, lenient=False):
    cmd = [EXTRACTOR, "--repo", REPO, "--tags", ",".join(tags), "--view", view, "--out", out_rs, "--map", out_map]
    if lenient:
        cmd.append("--lenient")
    # E0: names each function bound when its contract was written (renamed locals are followed)
    if specs:
        names = os.path.join(os.path.dirname(specs[0]), "pinned_names.json")
        if os.path.exists(names):
            cmd += ["--names", names]
    for s in specs:
        cmd += ["--spec", s]
    r = sh(cmd)
    if r.returncode != 0:
        raise ToolFailure("extraction failed (exit %d): %s" % (r.returncode, r.stderr.strip()))
    return json.load(open(out_map))


def gen_const_distinct(ex_text):
    """proof text (checked by Verus, not trusted): every pair of extracted byte-string constants
    differs.  The driver only supplies the index at which two literals differ as a hint; for two
    equal literals no hint exists and the `ensures` fails."""
    consts = re.findall(r"pub open spec fn (\w+)_spec\(\) -> Seq<u8> \{ seq!\[(.*?)\] \}", ex_text)
    vals = []
    for name, body in consts:
        b = [int(x.strip().removesuffix("u8")) for x in body.split(",") if x.strip()]
        vals.append((name, b))
    ens, hints = [], []
    for i in range(len(vals)):
        for j in range(i + 1, len(vals)):
            (a, ab), (b, bb) = vals[i], vals[j]
            ens.append("        %s_spec() != %s_spec()," % (a, b))
            if len(ab) != len(bb):
                hints.append("    assert(%s_spec().len() != %s_spec().len());" % (a, b))
            else:
                k = next((k for k in range(len(ab)) if ab[k] != bb[k]), None)
                if k is not None:
                    hints.append("    assert(%s_spec()[%d] != %s_spec()[%d]);" % (a, k, b, k))
    out = "// generated on this run from the %d byte-string constants extracted from /repo\n" % len(vals)
    out += "pub proof fn c05_all_tags_pairwise_distinct()\n    ensures\n" + "\n".join(ens) + "\n{\n" + "\n".join(hints) + "\n}\n"
    return out, len(vals)


def assemble(unit_name, specs, tags, view, props_files, workdir, prelude_files=None, extra_prelude="", gen_props=None, lenient=False):
    """returns (path, layout) where layout maps generated line ranges to (section, items)"""
    os.makedirs(workdir, exist_ok=True)
    ex_rs = os.path.join(workdir, unit_name + ".extracted.rs")
    ex_map = os.path.join(workdir, unit_name + ".map.json")
    m = run_extractor(specs, tags, view, ex_rs, ex_map, lenient=lenient)
    pre = prelude_text(prelude_files) + "\n" + extra_prelude
    axioms = broadcast_names(pre)
    parts = []
    parts.append(HEADER)
    parts.append("pub mod prelude {\nuse vstd::prelude::*;\nuse vstd::arithmetic::div_mod::*;\nuse vstd::arithmetic::mul::*;\nuse super::extracted::*;\n")
    parts.append(pre)
    parts.append("\npub broadcast group base_axioms {\n    " + ",\n    ".join(axioms + ["lemma_range_add", "lemma_range_mul", "lemma_range_neg"]) + ",\n}\n")
    parts.append("} // mod prelude\n")
    head = "".join(parts)
    ex_head = "pub mod extracted {\nuse vstd::prelude::*;\nuse super::prelude::*;\nuse std::collections::HashMap;\nbroadcast use " + ", ".join(["super::prelude::base_axioms", "super::prelude::ring_auto"] + (["super::prelude::pair_sums"] if "pub broadcast group pair_sums" in pre else []) + (["super::prelude::seq_ext"] if "pub broadcast group seq_ext" in pre else [])) + ";\n"
    ex_off = head.count("\n") + ex_head.count("\n")
    ex_text = open(ex_rs).read()
    body = head + ex_head + ex_text + "\n} // mod extracted\n"
    props_off = {}
    pr_head = "pub mod props {\nuse vstd::prelude::*;\nuse vstd::arithmetic::div_mod::*;\nuse vstd::arithmetic::mul::*;\nuse super::prelude::*;\nuse super::extracted::*;\nbroadcast use super::prelude::base_axioms;\n"
    body += pr_head
    props_files = list(props_files)
    if gen_props == "const_distinct":
        txt, n = gen_const_distinct(ex_text)
        gp = os.path.join(workdir, unit_name + ".generated_props.rs")
        open(gp, "w").write(txt)
        props_files.append(gp)
    for pf in props_files:
        props_off[pf] = body.count("\n")
        body += open(pf).read() + "\n"
    body += "} // mod props\n} // verus!\nfn main() {}\n"
    path = os.path.join(workdir, unit_name + ".rs")
    open(path, "w").write(body)
    layout = {"extracted_offset": ex_off, "map": m, "props_offsets": props_off, "prelude_lines": head.count("\n"), "props_files": props_files}
    return path, layout


ERR_KINDS_SEMANTIC = [
    "postcondition not satisfied",
    "precondition not satisfied",
    "precondition not met",
    "unable to prove post-condition of closure",
    "unable to prove pre-condition of closure",
    "index in bounds",
    "assertion failed",
    "invariant not satisfied",
    "possible arithmetic underflow/overflow",
    "possible division by zero",
    "index out of bounds",
    "slice index",
    "unreachable",
    "decreases not satisfied",
    "recommendation not met",
    "failed this postcondition",
    "may panic",
    "possible bit shift",
]


def run_verus(path, rlimit=30, seed=None, extra=None, timeout=420, threads=16):
    cmd = ["verus", path, "--output-json", "--time-expanded", "--num-threads", str(threads), "--rlimit", str(rlimit), "--multiple-errors", "5", "--triggers-mode", "silent"]
    if seed is not None:
        cmd += ["--smt-option", "smt.random_seed=%d" % (seed % 100000)]
    if extra:
        cmd += extra
    t0 = time.time()
    try:
        r = subprocess.run(cmd, stdout=subprocess.PIPE, stderr=subprocess.PIPE, text=True, timeout=timeout, cwd=os.path.dirname(path))
    except subprocess.TimeoutExpired:
        subprocess.run(["pkill", "-x", "z3"])
        raise ToolFailure("verus timed out after %ds on %s" % (timeout, path))
    wall = time.time() - t0
    js = None
    try:
        js = json.loads(r.stdout)
    except Exception:
        # sometimes diagnostics precede the json
        i = r.stdout.find("{")
        if i >= 0:
            try:
                js = json.loads(r.stdout[i:])
            except Exception:
                js = None
    return {"cmd": " ".join(cmd), "rc": r.returncode, "json": js, "stderr": r.stderr, "stdout": r.stdout, "wall": wall}


DIAG_RE = re.compile(r"^(error|warning|note)(\[E\d+\])?: (.*)$")
LOC_RE = re.compile(r"^\s*--> (.+?):(\d+):(\d+)")


def parse_diags(stderr):
    """split rustc-style diagnostics: list of {level, msg, locs:[(file,line,col)], text}"""
    diags = []
    cur = None
    for line in stderr.splitlines():
        m = DIAG_RE.match(line)
        if m:
            if cur:
                diags.append(cur)
            cur = {"level": m.group(1), "code": m.group(2), "msg": m.group(3), "locs": [], "text": [line], "labels": []}
            continue
        if cur is None:
            continue
        cur["text"].append(line)
        m = LOC_RE.match(line)
        if m:
            cur["locs"].append((m.group(1), int(m.group(2)), int(m.group(3))))
        m2 = re.match(r"^\s*(\d+)\s*\|", line)
        if m2:
            cur.setdefault("src_lines", []).append(int(m2.group(1)))
        m3 = re.search(r"(\^+|-+)\s+(failed this postcondition|failed precondition|at this exit|at the end of the function body|failed this invariant|.*)$", line)
        if m3 and re.match(r"^\s*\|", line):
            cur["labels"].append((cur.get("src_lines", [0])[-1] if cur.get("src_lines") else 0, m3.group(2).strip()))
    if cur:
        diags.append(cur)
    for d in diags:
        d["text"] = "\n".join(d["text"])
    return diags


def classify(run):
    """-> ('ok', info) | ('semantic', [failures]) | ('tool', message)"""
    js = run["json"]
    diags = parse_diags(run["stderr"])
    errors = [d for d in diags if d["level"] == "error"]
    if js is None:
        return "tool", "verus produced no JSON result; stderr:\n" + run["stderr"][-4000:]
    vr = js.get("verification-results", {})
    if vr.get("encountered-vir-error") or (vr.get("encountered-error") and vr.get("errors", 0) == 0 and vr.get("verified", 0) == 0 and errors):
        return "tool", "compile/VIR error in generated unit:\n" + "\n".join(d["text"] for d in errors[:6])
    if vr.get("success") and vr.get("errors", 0) == 0:
        return "ok", vr
    sem = []
    tool = []
    for d in errors:
        msg = d["msg"]
        if msg.startswith("aborting due to") or msg.startswith("could not compile"):
            continue
        if any(k in msg for k in ERR_KINDS_SEMANTIC):
            sem.append(d)
        elif "Resource limit" in msg or "rlimit" in msg.lower() or "timed out" in msg.lower():
            tool.append(d)
        else:
            tool.append(d)
    if tool and not sem:
        return "tool", "non-semantic verifier failure:\n" + "\n".join(d["text"] for d in tool[:6])
    if tool and sem:
        # rlimit notes next to real failures: report semantic ones, mention the rest
        pass
    if not sem:
        return "tool", "verus reported failure without a recognised diagnostic:\n" + run["stderr"][-3000:]
    return "semantic", sem


def map_failure(diag, layout, unit_path):
    """map a Verus diagnostic to (function record, clause id, repo location)"""
    unit_file = os.path.basename(unit_path)
    primary = [l for (f, l, c) in diag["locs"] if os.path.basename(f) == unit_file]
    labelled = [l for (l, lab) in diag.get("labels", []) if l]
    context = diag.get("src_lines", [])
    lines = primary + labelled + context
    off = layout["extracted_offset"]
    items = layout["map"]["items"]
    hit_fn = None
    hit_clause = None
    where = None
    # the clause is the one the PRIMARY span (then a labelled span) points at; lines that are only
    # printed as context of the snippet must not decide the attribution
    for group in (primary, labelled, context):
        for l in group:
            el = l - off
            for it in items:
                if it.get("kind") != "fn":
                    continue
                if it["gen_from"] <= el <= it["gen_to"]:
                    if hit_fn is None:
                        hit_fn = it
                    if hit_clause is None:
                        for c in it["clauses"]:
                            if c["from"] <= el <= c["to"]:
                                hit_clause = c
                                break
                    if where is None and el >= it["gen_body_from"]:
                        where = el
        if hit_clause is not None:
            break
        # props section
    prop_hit = None
    for pf, o in layout["props_offsets"].items():
        for l in lines:
            if l > o:
                prop_hit = (pf, l - o)
    return hit_fn, hit_clause, prop_hit


def sha(path):
    return hashlib.sha256(open(path, "rb").read()).hexdigest()[:16]

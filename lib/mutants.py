"""Mutation self-test catalogue (thorough tier).  Each entry is a realistic source edit that breaks
the listed properties while the crate still compiles; `apply` performs it on a scratch copy of
/repo/src.  The seeded changes written by independent sub-agents (seeded/<name>/patch.diff) are part
of the catalogue as well."""
import glob
import json
import os
import subprocess

VERIF = os.path.dirname(os.path.dirname(os.path.abspath(__file__)))

# (name, [properties], file, old, new)
EDITS = [
    ("core_verify_plus_generator", ["C01", "C02", "C09"], "src/traits/sig_core.rs", "let generator = -Self::PublicKey::generator();", "let generator = Self::PublicKey::generator();"),
    ("core_verify_no_sig_identity_guard", ["C04"], "src/traits/sig_core.rs", "        if sig.is_identity().into() {\n            return Err(BlsError::InvalidInputs(\n                \"signature is the identity point\".to_string(),\n            ));\n        }\n        if pk.is_identity().into() {", "        if pk.is_identity().into() {"),
    ("core_verify_no_pk_identity_guard", ["C04", "C02"], "src/traits/sig_core.rs", "        if pk.is_identity().into() {\n            return Err(BlsError::InvalidInputs(\n                \"public key is the identity point\".to_string(),\n            ));\n        }\n        let a = Self::hash_to_point::<B, C>(msg, dst);", "        let a = Self::hash_to_point::<B, C>(msg, dst);"),
    ("core_verify_hashes_dst_as_msg", ["C01", "C02"], "src/traits/sig_core.rs", "let a = Self::hash_to_point::<B, C>(msg, dst);", "let a = Self::hash_to_point::<C, C>(dst.as_ref().to_vec().as_slice().to_vec().as_slice().into(), dst);"),
    ("core_sign_zero_key_allowed", ["C04"], "src/traits/sig_core.rs", "        if sk.is_zero().into() {\n            return Err(BlsError::SigningError(\"signing key is zero\".to_string()));\n        }\n", ""),
    ("pop_sign_uses_pop_proof_tag", ["C01", "C03", "C05"], "src/traits/sig_pop.rs", "<Self as BlsSignatureCore>::core_sign(sk, msg, Self::SIG_DST)", "<Self as BlsSignatureCore>::core_sign(sk, msg, Self::POP_DST)"),
    ("aug_sign_without_pk_prefix", ["C01", "C03"], "src/traits/sig_aug.rs", "        let mut overhead = Self::pk_bytes(Self::public_key(sk), msg.as_ref().len());\n        overhead.extend_from_slice(msg.as_ref());\n        <Self as BlsSignatureCore>::core_sign(sk, overhead.as_slice(), Self::DST)", "        <Self as BlsSignatureCore>::core_sign(sk, msg.as_ref(), Self::DST)"),
    ("signature_verify_always_basic", ["C02", "C05"], "src/signature.rs", "            Self::ProofOfPossession(sig) => <C as BlsSignaturePop>::verify(pk.0, *sig, msg),\n        }\n    }\n\n    /// Determine", "            Self::ProofOfPossession(sig) => <C as BlsSignatureBasic>::verify(pk.0, *sig, msg),\n        }\n    }\n\n    /// Determine"),
    ("g1_basic_tag_edited", ["C03", "C05", "C18"], "src/impls/g1.rs", "b\"BLS_SIG_BLS12381G1_XMD:SHA-256_SSWU_RO_NUL_\"", "b\"BLS_SIG_BLS12381G1_XMD:SHA-256_SSWU_RO_NUL-\""),
    ("g2_pop_tag_equals_sig_tag", ["C03", "C05"], "src/impls/g2.rs", "b\"BLS_POP_BLS12381G2_XMD:SHA-256_SSWU_RO_POP_\"", "b\"BLS_SIG_BLS12381G2_XMD:SHA-256_SSWU_RO_POP_\""),
    ("g1_hash_uses_xof_expander", ["C03"], "src/impls/g1.rs", "impl HashToPoint for Bls12381G1Impl {\n    type Output = G1Projective;\n\n    fn hash_to_point<B: AsRef<[u8]>, C: AsRef<[u8]>>(m: B, dst: C) -> Self::Output {\n        Self::Output::hash::<ExpandMsgXmd<sha2::Sha256>>", "impl HashToPoint for Bls12381G1Impl {\n    type Output = G1Projective;\n\n    fn hash_to_point<B: AsRef<[u8]>, C: AsRef<[u8]>>(m: B, dst: C) -> Self::Output {\n        Self::Output::hash::<ExpandMsgXof<sha3::Shake128>>"),
    ("keygen_salt_edited", ["C03", "C18"], "src/helpers.rs", "b\"BLS-SIG-KEYGEN-SALT-\"", "b\"BLS-SIG-KEYGEN-SALT_\""),
    ("keygen_without_zero_octet", ["C03", "C18"], "src/helpers.rs", "    extractor.input_ikm(&[0u8]);\n", ""),
    ("keygen_info_32", ["C03", "C18"], "src/helpers.rs", "const INFO: [u8; 2] = [0u8, 48u8];", "const INFO: [u8; 2] = [0u8, 32u8];"),
    ("pairing_g2_g1_skips_first", ["C01", "C02", "C03"], "src/helpers.rs", "pub fn pairing_g2_g1(points: &[(G2Projective, G1Projective)]) -> Gt {\n    let t = points\n        .iter()", "pub fn pairing_g2_g1(points: &[(G2Projective, G1Projective)]) -> Gt {\n    let t = points\n        .iter()\n        .skip(1)"),
    ("aggregate_basic_without_uniqueness", ["C06"], "src/traits/sig_basic.rs", "            if let Some(old) = set.insert(item.clone(), i) {\n                return Err(BlsError::InvalidInputs(format!(\n                    \"duplicate messages detected at {} and {}\",\n                    old, i\n                )));\n            }\n", "            let _ = set.insert(item.clone(), i);\n"),
    ("aggregate_try_from_len_1", ["C06"], "src/aggregate_signature.rs", "        if sigs.len() < 2 {\n            return Err(BlsError::InvalidSignature);\n        }\n        let mut g = <C as Pairing>::Signature::identity();\n        for s in &sigs[1..] {\n            if !s.same_scheme(&sigs[0]) {\n                return Err(BlsError::InvalidSignatureScheme);\n            }\n            let ss = match s {\n                Signature::Basic(sig) => sig,\n                Signature::MessageAugmentation(sig) => sig,", "        if sigs.len() < 1 {\n            return Err(BlsError::InvalidSignature);\n        }\n        let mut g = <C as Pairing>::Signature::identity();\n        for s in &sigs[1..] {\n            if !s.same_scheme(&sigs[0]) {\n                return Err(BlsError::InvalidSignatureScheme);\n            }\n            let ss = match s {\n                Signature::Basic(sig) => sig,\n                Signature::MessageAugmentation(sig) => sig,"),
    ("aggregate_verify_last_key_unchecked", ["C04", "C06"], "src/traits/sig_core.rs", "            if pk.is_identity().into() {\n                return Err(BlsError::InvalidInputs(format!(", "            if i > 0 && pk.is_identity().into() {\n                return Err(BlsError::InvalidInputs(format!("),
    ("multisig_accepts_aug", ["C07"], "src/multi_signature.rs", "                Signature::MessageAugmentation(_) => {\n                    return Err(BlsError::InvalidSignatureScheme);\n                }", "                Signature::MessageAugmentation(sig) => sig,"),
    ("multisig_adds_twice", ["C07"], "src/multi_signature.rs", "            g += ss;\n        }\n        match sigs[0] {\n            Signature::Basic(s) => Ok(Self::Basic(g + s)),\n            Signature::MessageAugmentation(s) => Ok(Self::MessageAugmentation(g + s)),\n            Signature::ProofOfPossession(s) => Ok(Self::ProofOfPossession(g + s)),\n        }\n    }\n}\n\nimpl_from_derivatives_generic!(MultiSignature);", "            g += ss;\n            g += ss;\n        }\n        match sigs[0] {\n            Signature::Basic(s) => Ok(Self::Basic(g + s)),\n            Signature::MessageAugmentation(s) => Ok(Self::MessageAugmentation(g + s)),\n            Signature::ProofOfPossession(s) => Ok(Self::ProofOfPossession(g + s)),\n        }\n    }\n}\n\nimpl_from_derivatives_generic!(MultiSignature);"),
    ("multikey_skips_nothing_but_negates", ["C07"], "src/traits/pk_multi.rs", "            g += key;", "            g += -key;"),
    ("pop_verify_hashes_constant", ["C09", "C03", "C05"], "src/traits/sig_pop.rs", "        let pk_bytes = pk.to_bytes();\n        <Self as BlsSignatureCore>::core_verify(pk, sig, pk_bytes, Self::POP_DST)", "        let pk_bytes = Self::PublicKey::generator().to_bytes();\n        <Self as BlsSignatureCore>::core_verify(pk, sig, pk_bytes, Self::POP_DST)"),
    ("pok_verify_drops_challenge", ["C10"], "src/traits/sig_proof.rs", "            (commitment + a * y, pk),", "            (commitment + a, pk),"),
    ("pok_timeout_never", ["C10"], "src/traits/sig_proof.rs", "            if elapsed > tt {", "            if elapsed > tt && false {"),
    ("pok_finalize_mismatch_ok", ["C10", "C05"], "src/proof_commitment.rs", "            (_, _) => Err(BlsError::InvalidProof),", "            (Self::Basic(u), Signature::ProofOfPossession(s)) => {\n                let (u, v) = <C as BlsSignatureProof>::generate_proof(u, x.0, y.0, s)?;\n                Ok(ProofOfKnowledge::Basic { u, v })\n            }\n            (_, _) => Err(BlsError::InvalidProof),"),
    ("signcrypt_decrypt_always_valid", ["C11", "C04"], "src/traits/sign_crypt.rs", "                return CtOption::new(plaintext[overhead..overhead + len].to_vec(), valid);", "                return CtOption::new(plaintext[overhead..overhead + len].to_vec(), 1u8.into());"),
    ("signcrypt_valid_without_u_guard", ["C11", "C04"], "src/traits/sign_crypt.rs", "pair_result.is_identity() & !u.is_identity() & !w.is_identity()", "pair_result.is_identity() & !w.is_identity()"),
    ("signcrypt_w_omits_v", ["C11", "C18"], "src/traits/sign_crypt.rs", "        t.extend_from_slice(u_bytes.as_ref());\n        t.extend_from_slice(v);", "        t.extend_from_slice(u_bytes.as_ref());"),
    ("signcrypt_padding_16_both_sides", ["C11", "C18"], "src/traits/sign_crypt.rs", "        while overhead_bytes.len() < 32 {\n            overhead_bytes.push(0u8);\n        }\n        let v = Self::compute_v(pk * r, overhead_bytes.as_slice());", "        while overhead_bytes.len() < 16 {\n            overhead_bytes.push(0u8);\n        }\n        let v = Self::compute_v(pk * r, overhead_bytes.as_slice());"),
    ("signcrypt_fixed_r", ["C20"], "src/traits/sign_crypt.rs", "let r = Self::hash_to_scalar(get_crypto_rng().gen::<[u8; 32]>(), SALT);", "let r = Self::hash_to_scalar([7u8; 32], SALT);"),
    ("signcrypt_off_by_one_slice", ["C11", "C17"], "src/traits/sign_crypt.rs", "            if len <= plaintext.len() - overhead {", "            if len <= plaintext.len() - overhead + 1 {"),
    ("sign_decryption_share_basic_tag", ["C12", "C05"], "src/sign_decryption_share.rs", "            SignatureSchemes::MessageAugmentation => <C as BlsSignatureMessageAugmentation>::DST,\n            SignatureSchemes::ProofOfPossession => <C as BlsSignaturePop>::SIG_DST,\n        };\n        if <C as BlsSignCrypt>::verify_share(", "            SignatureSchemes::MessageAugmentation => <C as BlsSignatureBasic>::DST,\n            SignatureSchemes::ProofOfPossession => <C as BlsSignaturePop>::SIG_DST,\n        };\n        if <C as BlsSignCrypt>::verify_share("),
    ("verify_share_hash_not_negated", ["C12"], "src/traits/sign_crypt.rs", "let hash = -Self::compute_w(u, v, dst);", "let hash = Self::compute_w(u, v, dst);"),
    ("timelock_unseal_ignores_is_valid", ["C13", "C05"], "src/traits/time_crypt.rs", "((Self::PublicKey::generator() * r) - u).is_identity() & is_valid & valid_sk,", "((Self::PublicKey::generator() * r) - u).is_identity() & valid_sk,"),
    ("timelock_fixed_alpha", ["C20"], "src/traits/time_crypt.rs", "let alpha = Self::hash_to_scalar(get_crypto_rng().gen::<[u8; 32]>(), SALT);", "let alpha = Self::hash_to_scalar([1u8; 32], SALT);"),
    ("timelock_decrypt_wildcard_valid", ["C13", "C05"], "src/time_crypt_ciphertext.rs", "(_, _) => (<C as Pairing>::Signature::default(), 0u8.into()),", "(s, _) => (*s.as_raw_value(), 1u8.into()),"),
    ("timelock_seal_r_uses_message", ["C13", "C18"], "src/traits/time_crypt.rs", "        let msg_dst = Sha256::digest(message);\n        // r = HZq(\\alpha  || M)", "        let msg_dst = Sha256::digest(id);\n        // r = HZq(\\alpha  || M)"),
    ("elgamal_identity_or_becomes_and", ["C14", "C04"], "src/traits/elgamal.rs", "if (generator.is_identity() | pk.is_identity()).into() {", "if (generator.is_identity() & pk.is_identity()).into() {"),
    ("elgamal_verifier_drops_c2", ["C14", "C18"], "src/traits/elgamal.rs", "        transcript.append_message(b\"c2\", c2.to_bytes().as_ref());\n        transcript.append_message(b\"r1\", r1.to_bytes().as_ref());\n        transcript.append_message(b\"r2\", r2.to_bytes().as_ref());\n        let mut challenge_bytes = [0u8; 64];", "        transcript.append_message(b\"r1\", r1.to_bytes().as_ref());\n        transcript.append_message(b\"r2\", r2.to_bytes().as_ref());\n        let mut challenge_bytes = [0u8; 64];"),
    ("elgamal_add_mixes_components", ["C14"], "src/elgamal_ciphertext.rs", "            c1: self.c1 + rhs.c1,\n            c2: self.c2 + rhs.c2,", "            c1: self.c1 + rhs.c2,\n            c2: self.c2 + rhs.c2,"),
    ("elgamal_decrypt_adds", ["C14"], "src/traits/elgamal.rs", "        c2 - c1 * sk", "        c2 + c1 * sk"),
    ("secret_key_enum_tag_as_u8", ["C15"], "src/secret_key.rs", "        output.insert(0, u8::from(tt));", "        output.insert(0, tt as u8);"),
    ("scalar_to_be_without_reverse", ["C15", "C01"], "src/helpers.rs", "    let ptr = bytes.as_mut();\n    // Make big endian\n    ptr.reverse();", "    let ptr = bytes.as_mut();"),
    ("scalar_from_be_accepts_zero", ["C04", "C16"], "src/helpers.rs", "pub fn scalar_from_be_bytes<C: BlsSignatureImpl, const N: usize>(\n    input: &[u8; N],\n) -> CtOption<<<C as Pairing>::PublicKey as Group>::Scalar> {\n    if input.is_zero().into() {", "pub fn scalar_from_be_bytes<C: BlsSignatureImpl, const N: usize>(\n    input: &[u8; N],\n) -> CtOption<<<C as Pairing>::PublicKey as Group>::Scalar> {\n    if input.is_zero().into() && false {"),
    ("secret_key_enum_index_without_guard", ["C17"], "src/secret_key.rs", "        if value.is_empty() {\n            return Err(BlsError::InvalidInputs(\n                \"Invalid secret key bytes\".to_string(),\n            ));\n        }\n", ""),
    ("pok_timestamp_unwrap_again", ["C17", "C10"], "src/traits/sig_proof.rs", "            let elapsed = match now.duration_since(since) {\n                Ok(d) => d.as_millis() as u64,\n                Err(_) => return Err(BlsError::InvalidProof),\n            };", "            let elapsed = now.duration_since(since).unwrap().as_millis() as u64;"),
    ("is_zero_plain_negation", ["C17"], "src/helpers.rs", "(t | t.wrapping_neg())", "(t | -t)"),
    ("partial_sign_uses_pop_tag_for_basic", ["C08"], "src/traits/sig_basic.rs", "<Self as BlsSignatureCore>::core_partial_sign(sks, msg, Self::DST)", "<Self as BlsSignatureCore>::core_partial_sign(sks, msg, b\"other\".as_slice())"),
    ("share_sign_allows_aug", ["C08"], "src/secret_key_share.rs", "            SignatureSchemes::MessageAugmentation => Err(BlsError::SigningError(\n                \"Message Augmentation not supported\".to_string(),\n            )),", "            SignatureSchemes::MessageAugmentation => Ok(SignatureShare::MessageAugmentation(\n                <C as BlsSignatureBasic>::partial_sign(&self.0, msg)?,\n            )),"),
    ("enum_variant_order_swapped", ["C18"], "src/sig_types.rs", "    Basic = 0,\n    /// The message augmentation signature algorithm scheme\n    MessageAugmentation = 1,", "    MessageAugmentation = 0,\n    /// The message augmentation signature algorithm scheme\n    Basic = 1,"),
    ("pok_salt_edited", ["C18"], "src/traits/sig_proof.rs", "b\"BLS_POK__BLS12381_XOF:HKDF-SHA2-256_\"", "b\"BLS_POK_BLS12381_XOF:HKDF-SHA2-256_\""),
]


def for_property(prop):
    out = []
    for (name, props, f, old, new) in EDITS:
        if prop in props:
            out.append((name, {"kind": "edit", "file": f, "old": old, "new": new}))
    for meta in sorted(glob.glob(os.path.join(VERIF, "seeded", "*", "meta.json"))):
        try:
            m = json.load(open(meta))
        except Exception:
            continue
        det = m.get("detected_by", {})
        if prop == m.get("property") or (prop in det and str(det[prop]).upper().startswith("VIOLATION")):
            out.append(("seeded/" + os.path.basename(os.path.dirname(meta)), {"kind": "patch", "path": os.path.join(os.path.dirname(meta), "patch.diff")}))
    return out


def apply(m, scratch):
    if m["kind"] == "edit":
        p = os.path.join(scratch, m["file"])
        if not os.path.exists(p):
            return False
        s = open(p).read()
        if s.count(m["old"]) != 1:
            return False
        open(p, "w").write(s.replace(m["old"], m["new"]))
        return True
    r = subprocess.run(["patch", "-p1", "-s", "-d", scratch, "-i", m["path"]], stdout=subprocess.PIPE, stderr=subprocess.PIPE)
    return r.returncode == 0

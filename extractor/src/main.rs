//! Mechanical extractor: copies real blsful functions out of /repo/src into a Verus file.
//!
//! What it does is the complete list of rules E1..E11 in DESIGN.md §2.2.  Everything outside
//! those rules makes the run fail with exit code 2 ("unsupported construct" / "lost anchor"),
//! never with a violation.
//!
//! usage: extractor --repo <dir> --spec <file>... --tags C01,common --view release|debug
//!                  --out <file.rs> --map <file.json>

mod index;
mod print;
mod rewrite;
mod spec;

use std::collections::BTreeMap;
use std::fmt::Write as _;

pub fn die(msg: &str) -> ! {
    eprintln!("extractor: {}", msg);
    std::process::exit(2)
}

fn main() {
    let args: Vec<String> = std::env::args().collect();
    let mut repo = String::from("/repo");
    let mut specs: Vec<String> = vec![];
    let mut tags: Vec<String> = vec![];
    let mut view = String::from("release");
    let mut out = String::new();
    let mut map = String::new();
    let mut i = 1;
    while i < args.len() {
        match args[i].as_str() {
            "--repo" => { repo = args[i + 1].clone(); i += 2; }
            "--spec" => { specs.push(args[i + 1].clone()); i += 2; }
            "--tags" => { tags = args[i + 1].split(',').map(|s| s.to_string()).collect(); i += 2; }
            "--view" => { view = args[i + 1].clone(); i += 2; }
            "--out" => { out = args[i + 1].clone(); i += 2; }
            "--map" => { map = args[i + 1].clone(); i += 2; }
            other => die(&format!("unknown argument {}", other)),
        }
    }
    if out.is_empty() || specs.is_empty() {
        die("need --spec and --out");
    }
    let idx = index::Index::build(&format!("{}/src", repo));
    let mut items: Vec<spec::Item> = vec![];
    for s in &specs {
        items.extend(spec::parse_file(s));
    }
    let debug_view = view == "debug";
    let mut text = String::new();
    let mut records: Vec<serde_json::Value> = vec![];
    let mut stats: BTreeMap<String, usize> = BTreeMap::new();
    for it in &items {
        let start_line = text.lines().count() + 1;
        match it {
            spec::Item::Raw { text: t, tags: ttags } => {
                if ttags.is_empty() || ttags.iter().any(|t| tags.contains(t) || t == "common") {
                    text.push_str(t);
                    text.push('\n');
                }
            }
            spec::Item::Type(ts) => {
                let s = rewrite::emit_type(&idx, ts, &mut stats);
                text.push_str(&s);
                text.push('\n');
                records.push(serde_json::json!({"kind": "type", "name": ts.name, "gen_line": start_line}));
            }
            spec::Item::Const(cs) => {
                let s = rewrite::emit_const(&idx, cs, &mut stats);
                text.push_str(&s);
                text.push('\n');
                records.push(serde_json::json!({"kind": "const", "name": cs.name, "gen_line": start_line}));
            }
            spec::Item::Fn(fs) => {
                // a function belongs to the cone of the requested properties iff one of its
                // clauses (or its `cone` directive) is tagged with one of them
                let wanted = |t: &Vec<String>| t.iter().any(|x| x == "common" || tags.contains(x));
                let in_cone = fs.enss.iter().any(|c| wanted(&c.tags)) || wanted(&fs.cone)
                    || fs.loops.values().any(|l| l.invs.iter().any(|c| wanted(&c.tags)));
                if !in_cone {
                    continue;
                }
                let (s, rec) = rewrite::emit_fn(&idx, fs, &tags, debug_view, start_line, &mut stats);
                text.push_str(&s);
                text.push('\n');
                records.push(rec);
            }
        }
    }
    std::fs::write(&out, &text).unwrap_or_else(|e| die(&format!("write {}: {}", out, e)));
    if !map.is_empty() {
        let mut st = String::new();
        let _ = write!(st, "{}", serde_json::to_string_pretty(&serde_json::json!({
            "items": records, "rule_applications": stats, "view": view, "tags": tags,
        })).unwrap());
        std::fs::write(&map, st).unwrap();
    }
}

//! Mechanical extractor: copies real blsful functions out of /repo/src into a Verus file.
//!
//! What it does is the complete list of rules E1..E11 in DESIGN.md §2.2.  Everything outside
//! those rules makes the run fail with exit code 2 ("unsupported construct" / "lost anchor"),
//! never with a violation.
//!
//! usage: extractor --repo <dir> --spec <file>... --tags C01,common --view release|debug
//!                  --out <file.rs> --map <file.json>

mod index;
mod print;
mod rewrite;
mod textforms;
mod spec;

use std::collections::BTreeMap;
use std::fmt::Write as _;

pub fn die(msg: &str) -> ! {
    eprintln!("extractor: {}", msg);
    std::process::exit(2)
}

fn word_called(text: &str, name: &str) -> bool {
    let mut start = 0;
    while let Some(i) = text[start..].find(name) {
        let a = start + i;
        let b = a + name.len();
        let before_ok = a == 0 || !text.as_bytes()[a - 1].is_ascii_alphanumeric() && text.as_bytes()[a - 1] != b'_';
        let rest = text[b..].trim_start();
        let after_ok = rest.starts_with('(') || rest.starts_with("::<") || rest.starts_with(":: <");
        if before_ok && after_ok && !text[..a].trim_end().ends_with("fn") {
            return true;
        }
        start = b;
    }
    false
}

fn main() {
    let args: Vec<String> = std::env::args().collect();
    let mut repo = String::from("/repo");
    let mut specs: Vec<String> = vec![];
    let mut tags: Vec<String> = vec![];
    let mut view = String::from("release");
    let mut out = String::new();
    let mut map = String::new();
    let mut raw: Vec<String> = vec![];
    let mut i = 1;
    while i < args.len() {
        match args[i].as_str() {
            "--repo" => { repo = args[i + 1].clone(); i += 2; }
            "--spec" => { specs.push(args[i + 1].clone()); i += 2; }
            "--tags" => { tags = args[i + 1].split(',').map(|s| s.to_string()).collect(); i += 2; }
            "--view" => { view = args[i + 1].clone(); i += 2; }
            "--out" => { out = args[i + 1].clone(); i += 2; }
            "--map" => { map = args[i + 1].clone(); i += 2; }
            "--raw" => { raw.push(args[i + 1].clone()); i += 2; }
            "--list" => {
                // inventory: every function of /repo/src the index knows (key, file:line, origin)
                let idx = index::Index::build(&format!("{}/src", repo));
                for (k, v) in &idx.fns {
                    for f in v {
                        println!("{}\t{}:{}-{}\t{}", k, f.file, f.line, f.end_line, f.from_macro.clone().unwrap_or_default());
                    }
                }
                return;
            }
            "--textforms" => {
                // literal tables of the human-readable converters of a type: Display (variant -> text),
                // FromStr / From<&str> (text -> variant, with the fall-through arm)
                let ty = args[i + 1].clone();
                let idx = index::Index::build(&format!("{}/src", repo));
                let mut out = serde_json::Map::new();
                for (label, key) in [("display", format!("[core::fmt::Displayfor{}]::fmt", ty)), ("display", format!("[Displayfor{}]::fmt", ty)),
                                     ("from_str", format!("[core::str::FromStrfor{}]::from_str", ty)), ("from_str", format!("[FromStrfor{}]::from_str", ty)),
                                     ("from_strref", format!("[From<&str>for{}]::from", ty))] {
                    if let Some(v) = idx.fns.get(&key) {
                        if v.len() == 1 { out.insert(label.to_string(), textforms::table(&v[0].text, &ty)); }
                    }
                }
                println!("{}", serde_json::Value::Object(out));
                return;
            }
            "--names" => {
                // E0: pinned parameter / local names per function (contracts/pinned_names.json)
                if let Ok(t) = std::fs::read_to_string(&args[i + 1]) {
                    if let Ok(serde_json::Value::Object(m)) = serde_json::from_str::<serde_json::Value>(&t) { let _ = rewrite::PINNED_NAMES.set(m); }
                }
                i += 2;
            }
            "--pin-names" => {
                // write the names every function under contract binds on the CURRENT tree (run when a contract is written)
                let idx = index::Index::build(&format!("{}/src", repo));
                let mut items: Vec<spec::Item> = vec![];
                for s in &specs { items.extend(spec::parse_file(s)); }
                let mut out = serde_json::Map::new();
                for it in &items {
                    if let spec::Item::Fn(fs) = it {
                        let src = idx.lookup_fn(&fs.key, &fs.file);
                        if let Some((p, l, sh)) = rewrite::bound_names(&src.text) { let (nl, nc) = rewrite::count_loops_closures(&src.text).unwrap_or((0, 0)); out.insert(fs.key.clone(), serde_json::json!({"params": p, "lets": l, "shapes": sh, "n_loops": nl, "n_closures": nc})); }
                    }
                }
                println!("{}", serde_json::to_string_pretty(&serde_json::Value::Object(out)).unwrap());
                return;
            }
            "--lenient" => { rewrite::LENIENT.store(true, std::sync::atomic::Ordering::Relaxed); i += 1; }
            other => die(&format!("unknown argument {}", other)),
        }
    }
    if !raw.is_empty() {
        // Kani units: the ORIGINAL source text of the selected items, unchanged (only located and copied)
        let idx = index::Index::build(&format!("{}/src", repo));
        let mut text = String::new();
        for sel in &raw {
            let t = idx.raw_item(sel);
            text.push_str(&t);
            text.push_str("\n\n");
        }
        std::fs::write(&out, &text).unwrap_or_else(|e| die(&format!("write {}: {}", out, e)));
        return;
    }
    if out.is_empty() || specs.is_empty() {
        die("need --spec and --out");
    }
    let idx = index::Index::build(&format!("{}/src", repo));
    let mut items: Vec<spec::Item> = vec![];
    for s in &specs {
        items.extend(spec::parse_file(s));
    }
    let debug_view = view == "debug";
    let mut text = String::new();
    let mut records: Vec<serde_json::Value> = vec![];
    let mut stats: BTreeMap<String, usize> = BTreeMap::new();
    let mut outside: Vec<spec::FnSpec> = vec![];
    for it in &items {
        let start_line = text.lines().count() + 1;
        match it {
            spec::Item::Raw { text: t, tags: ttags } => {
                if ttags.is_empty() || ttags.iter().any(|t| tags.contains(t) || t == "common") {
                    text.push_str(t);
                    text.push('\n');
                }
            }
            spec::Item::Type(ts) => {
                let s = rewrite::emit_type(&idx, ts, &mut stats);
                text.push_str(&s);
                text.push('\n');
                records.push(serde_json::json!({"kind": "type", "name": ts.name, "gen_line": start_line}));
            }
            spec::Item::Const(cs) => {
                let s = rewrite::emit_const(&idx, cs, &mut stats);
                text.push_str(&s);
                text.push('\n');
                records.push(serde_json::json!({"kind": "const", "name": cs.name, "gen_line": start_line}));
            }
            spec::Item::Fn(fs) => {
                // a function belongs to the cone of the requested properties iff one of its
                // clauses (or its `cone` directive) is tagged with one of them
                let wanted = |t: &Vec<String>| t.iter().any(|x| x == "common" || tags.contains(x));
                let in_cone = fs.enss.iter().any(|c| wanted(&c.tags)) || wanted(&fs.cone)
                    || fs.loops.values().any(|l| l.invs.iter().any(|c| wanted(&c.tags)));
                if !in_cone {
                    outside.push(fs.clone());
                    continue;
                }
                let (s, rec) = rewrite::emit_fn(&idx, fs, &tags, debug_view, start_line, &mut stats);
                text.push_str(&s);
                text.push('\n');
                records.push(rec);
            }
        }
    }
    // cone closure: a contracted function that is CALLED from the cone but does not belong to
    // it is emitted as a bodiless declaration (external_body, its `req` clauses, NO `ens`):
    // the caller can rely on nothing about it, and its body raises no obligation for this
    // property.  One pass suffices because declarations have no bodies.
    let cone_text = text.clone();
    let no_tags: Vec<String> = vec!["__declaration_only__".to_string()];
    for fs in &outside {
        let mut d = fs.clone();
        d.external = true;
        d.enss.retain(|c| c.tags.is_empty());
        d.hints.clear();
        d.loops.clear();
        d.closures.clear();
        let start_line = text.lines().count() + 1;
        let mut scratch: BTreeMap<String, usize> = BTreeMap::new();
        let (s, mut rec) = rewrite::emit_fn(&idx, &d, &no_tags, debug_view, start_line, &mut scratch);
        let name = rec["out_name"].as_str().unwrap_or("").to_string();
        let is_conv = name == "from" || name == "try_from";
        let called = if is_conv {
            cone_text.contains("::from(") || cone_text.contains("::try_from(") || cone_text.contains(".into()") || cone_text.contains(".try_into()")
        } else {
            word_called(&cone_text, &name)
        };
        if called {
            rec["declaration_only"] = serde_json::json!(true);
            text.push_str(&s);
            text.push('\n');
            records.push(rec);
            *stats.entry("cone.declaration_only".to_string()).or_insert(0) += 1;
        }
    }
    std::fs::write(&out, &text).unwrap_or_else(|e| die(&format!("write {}: {}", out, e)));
    if !map.is_empty() {
        let mut st = String::new();
        let _ = write!(st, "{}", serde_json::to_string_pretty(&serde_json::json!({
            "items": records, "rule_applications": stats, "view": view, "tags": tags,
        })).unwrap());
        std::fs::write(&map, st).unwrap();
    }
}

//! Parser for the `.vspec` contract files (see contracts/README in /verif).
//!
//! Line based.  Top level:   fn <key> ... end | type <Name> ... end | const <Name> ... end |
//!                           verus [tags] <<<  raw Verus text  >>>
//! Inside `fn`: two-space indented directives; lines indented by four or more spaces continue
//! the previous directive.

use crate::die;
use std::collections::BTreeMap;

#[derive(Debug, Clone)]
pub struct Clause {
    pub tags: Vec<String>,
    pub text: String,
    pub id: String,
}

#[derive(Debug, Default, Clone)]
pub struct LoopSpec {
    pub iter: Option<String>,
    pub invs: Vec<Clause>,
    pub dec: Option<String>,
}

#[derive(Debug, Default, Clone)]
pub struct ClosureSpec {
    pub types: Vec<String>,
    pub ret: Option<String>,
    pub reqs: Vec<String>,
    pub enss: Vec<(Vec<String>, String)>,
    /// E17: `opt.unwrap_or_else(|| e)` with this closure is emitted as `match opt { Some(v) => v, None => e }`
    pub inline: bool,
}

#[derive(Debug, Default, Clone)]
pub struct FnSpec {
    pub key: String,
    pub file: String,
    pub out_name: Option<String>,
    pub ret: Option<String>,
    pub reqs: Vec<Clause>,
    pub enss: Vec<Clause>,
    pub loops: BTreeMap<usize, LoopSpec>,
    pub closures: BTreeMap<usize, ClosureSpec>,
    /// E16: locals / parameters of type u64 whose `.to_le_bytes()` becomes `u64_to_le_bytes(..)`
    pub u64_names: Vec<String>,
    /// (where, tags, text)
    pub hints: Vec<(String, Vec<String>, String)>,
    /// (reason, from, to)
    pub patches: Vec<(String, String, String)>,
    pub attrs: Vec<String>,
    pub external: bool,
    pub no_unwind: bool,
    /// properties whose cone contains this function even without a tagged clause
    pub cone: Vec<String>,
    /// E3c: type parameters instantiated by the contract file (ident, type text)
    pub insts: Vec<(String, String)>,
    /// E12: type ascriptions added to untyped `let` bindings (name, type) — checked by rustc
    pub annots: Vec<(String, String)>,
    /// emit a From/TryFrom impl method as a free function (breaks verifier call-graph cycles
    /// through the conversion traits; the method body is unchanged)
    pub as_free: bool,
    pub spec_file: String,
    pub spec_line: usize,
}

#[derive(Debug, Default, Clone)]
pub struct TypeSpec {
    pub name: String,
    pub derives: Vec<String>,
    pub attrs: Vec<String>,
}

#[derive(Debug, Default, Clone)]
pub struct ConstSpec {
    pub name: String,
    pub owner: Option<String>,
}

#[derive(Debug, Clone)]
pub enum Item {
    Fn(FnSpec),
    Type(TypeSpec),
    Const(ConstSpec),
    Raw { text: String, tags: Vec<String> },
}

thread_local! {
    static ALIASES: std::cell::RefCell<BTreeMap<String, Vec<String>>> = std::cell::RefCell::new(BTreeMap::new());
}

fn expand_alias(tags: Vec<String>) -> Vec<String> {
    let mut out = vec![];
    ALIASES.with(|a| {
        let a = a.borrow();
        for t in tags {
            if let Some(v) = a.get(&t) {
                out.extend(v.iter().cloned());
            } else {
                out.push(t);
            }
        }
    });
    out
}

fn split_tags(s: &str) -> (Vec<String>, String) {
    let t = s.trim_start();
    if let Some(rest) = t.strip_prefix('[') {
        if let Some(end) = rest.find(']') {
            let tags: Vec<String> = rest[..end].split(',').map(|x| x.trim().to_string()).filter(|x| !x.is_empty()).collect();
            return (expand_alias(tags), rest[end + 1..].trim_start().to_string());
        }
    }
    (vec![], t.to_string())
}

pub fn parse_file(path: &str) -> Vec<Item> {
    let src = std::fs::read_to_string(path).unwrap_or_else(|e| die(&format!("read {}: {}", path, e)));
    let lines: Vec<&str> = src.lines().collect();
    let mut items = vec![];
    let mut i = 0;
    while i < lines.len() {
        let l = lines[i];
        let t = l.trim();
        if t.is_empty() || t.starts_with('#') {
            i += 1;
            continue;
        }
        if let Some(rest) = t.strip_prefix("alias ") {
            let (n, l) = rest.split_once('=').unwrap_or_else(|| die(&format!("{}:{}: alias needs NAME = list", path, i + 1)));
            let v: Vec<String> = l.split(',').map(|x| x.trim().to_string()).filter(|x| !x.is_empty()).collect();
            let v = expand_alias(v);
            ALIASES.with(|a| a.borrow_mut().insert(n.trim().to_string(), v));
            i += 1;
            continue;
        }
        if let Some(rest) = t.strip_prefix("verus") {
            let rest = rest.trim();
            let (tags, rest2) = split_tags(rest);
            if !rest2.trim().starts_with("<<<") {
                die(&format!("{}:{}: expected <<< after verus", path, i + 1));
            }
            let mut body = String::new();
            i += 1;
            while i < lines.len() && lines[i].trim() != ">>>" {
                body.push_str(lines[i]);
                body.push('\n');
                i += 1;
            }
            if i >= lines.len() {
                die(&format!("{}: unterminated verus block", path));
            }
            i += 1;
            items.push(Item::Raw { text: body, tags });
            continue;
        }
        if let Some(rest) = t.strip_prefix("type ") {
            let mut ts = TypeSpec { name: rest.trim().to_string(), ..Default::default() };
            i += 1;
            while i < lines.len() && lines[i].trim() != "end" {
                let d = lines[i].trim();
                if let Some(r) = d.strip_prefix("derive ") {
                    ts.derives = r.split(',').map(|x| x.trim().to_string()).collect();
                } else if let Some(r) = d.strip_prefix("attr ") {
                    ts.attrs.push(r.trim().to_string());
                } else if !d.is_empty() && !d.starts_with('#') {
                    die(&format!("{}:{}: unknown type directive {}", path, i + 1, d));
                }
                i += 1;
            }
            i += 1;
            items.push(Item::Type(ts));
            continue;
        }
        if let Some(rest) = t.strip_prefix("const ") {
            let name = rest.trim().to_string();
            let (owner, name) = match name.rsplit_once("::") {
                Some((o, n)) => (Some(o.to_string()), n.to_string()),
                None => (None, name),
            };
            items.push(Item::Const(ConstSpec { name, owner }));
            i += 1;
            continue;
        }
        if let Some(rest) = t.strip_prefix("fn ") {
            let mut fs = FnSpec { key: rest.trim().to_string(), spec_file: path.to_string(), spec_line: i + 1, ..Default::default() };
            i += 1;
            // gather directives
            let mut dirs: Vec<(usize, String)> = vec![];
            while i < lines.len() && lines[i].trim() != "end" {
                let raw = lines[i];
                let tt = raw.trim();
                if tt.is_empty() || tt.starts_with('#') {
                    i += 1;
                    continue;
                }
                let indent = raw.len() - raw.trim_start().len();
                if indent >= 4 && !dirs.is_empty() {
                    let last = dirs.last_mut().unwrap();
                    last.1.push('\n');
                    last.1.push_str(raw.trim_end());
                } else {
                    dirs.push((i + 1, tt.to_string()));
                }
                i += 1;
            }
            if i >= lines.len() {
                die(&format!("{}: unterminated fn {}", path, fs.key));
            }
            i += 1;
            let short = fs.key.rsplit("::").next().unwrap_or("").to_string();
            for (ln, d) in dirs {
                let (kw, rest) = match d.split_once(char::is_whitespace) {
                    Some((a, b)) => (a.to_string(), b.trim_start().to_string()),
                    None => (d.clone(), String::new()),
                };
                match kw.as_str() {
                    "file" => fs.file = rest,
                    "as" => fs.out_name = Some(rest),
                    "ret" => fs.ret = Some(rest),
                    "external" => fs.external = true,
                    "as_free" => fs.as_free = true,
                    "annot" => {
                        let (a, b) = rest.split_once(':').unwrap_or_else(|| die(&format!("{}:{}: annot needs `name : type`", path, ln)));
                        fs.annots.push((a.trim().to_string(), b.trim().to_string()));
                    }
                    "inst" => {
                        let (a, b) = rest.split_once('=').unwrap_or_else(|| die(&format!("{}:{}: inst needs `T = type`", path, ln)));
                        fs.insts.push((a.trim().to_string(), b.trim().to_string()));
                    }
                    "cone" => { let (tags, _) = split_tags(&rest); fs.cone = tags; }
                    "no_unwind" => fs.no_unwind = true,
                    "attr" => fs.attrs.push(rest),
                    "req" => {
                        let (tags, text) = split_tags(&rest);
                        let id = format!("{}.req.{}", short, fs.reqs.len() + 1);
                        fs.reqs.push(Clause { tags, text, id });
                    }
                    "ens" => {
                        let (tags, text) = split_tags(&rest);
                        let id = format!("{}.ens.{}@{}", short, fs.enss.len() + 1, ln);
                        fs.enss.push(Clause { tags, text, id });
                    }
                    "loop" => {
                        let (k, r) = rest.split_once(char::is_whitespace).unwrap_or_else(|| die(&format!("{}:{}: bad loop", path, ln)));
                        let k: usize = k.parse().unwrap_or_else(|_| die(&format!("{}:{}: bad loop ordinal", path, ln)));
                        let (sub, r2) = r.trim_start().split_once(char::is_whitespace).unwrap_or((r.trim(), ""));
                        let lp = fs.loops.entry(k).or_default();
                        match sub {
                            "iter" => lp.iter = Some(r2.trim().to_string()),
                            "inv" => {
                                let (tags, text) = split_tags(r2);
                                let id = format!("{}.loop{}.inv.{}@{}", short, k, lp.invs.len() + 1, ln);
                                lp.invs.push(Clause { tags, text, id });
                            }
                            "dec" => lp.dec = Some(r2.trim().to_string()),
                            _ => die(&format!("{}:{}: unknown loop directive {}", path, ln, sub)),
                        }
                    }
                    "closure" => {
                        let (k, r) = rest.split_once(char::is_whitespace).unwrap_or_else(|| die(&format!("{}:{}: bad closure", path, ln)));
                        let k: usize = k.parse().unwrap_or_else(|_| die(&format!("{}:{}: bad closure ordinal", path, ln)));
                        let (sub, r2) = r.trim_start().split_once(char::is_whitespace).unwrap_or((r.trim(), ""));
                        let cl = fs.closures.entry(k).or_default();
                        match sub {
                            "types" => cl.types = r2.split(';').map(|x| x.trim().to_string()).filter(|x| !x.is_empty()).collect(),
                            "ret" => cl.ret = Some(r2.trim().to_string()),
                            "req" => cl.reqs.push(r2.trim().to_string()),
                            "ens" => { let (tags, text) = split_tags(r2); cl.enss.push((tags, text)); }
                            "inline" => cl.inline = true,
                            _ => die(&format!("{}:{}: unknown closure directive {}", path, ln, sub)),
                        }
                    }
                    "u64" => { fs.u64_names.push(rest.trim().to_string()); }
                    "hint" => {
                        let (tags, r) = split_tags(&rest);
                        let (wh, text) = r.split_once("::").unwrap_or_else(|| die(&format!("{}:{}: hint needs `where :: text`", path, ln)));
                        let low = text.to_lowercase();
                        if low.contains("assume(") || low.contains("assume (") || low.contains("admit(") || low.contains("admit (") {
                            die(&format!("{}:{}: assume/admit is not allowed in a hint", path, ln));
                        }
                        fs.hints.push((wh.trim().to_string(), tags, text.trim().to_string()));
                    }
                    "patch" => {
                        let (reason, r) = rest.split_once("::").unwrap_or_else(|| die(&format!("{}:{}: patch needs `reason :: from => to`", path, ln)));
                        let (from, to) = r.split_once("=>").unwrap_or_else(|| die(&format!("{}:{}: patch needs =>", path, ln)));
                        fs.patches.push((reason.trim().to_string(), from.trim().to_string(), to.trim().to_string()));
                    }
                    _ => die(&format!("{}:{}: unknown directive `{}`", path, ln, kw)),
                }
            }
            items.push(Item::Fn(fs));
            continue;
        }
        die(&format!("{}:{}: unexpected line `{}`", path, i + 1, t));
    }
    items
}

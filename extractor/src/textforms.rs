//! literal tables of `match`-on-literal converters (Display with `write!(f, "LIT")` arms, FromStr /
//! From<&str> with `"LIT" => VARIANT` arms).  Purely syntactic: the single `match` of the body.
use quote::ToTokens;
use serde_json::{json, Value};
use syn::*;

fn last_ident(e: &Expr) -> Option<String> {
    match e {
        Expr::Path(p) => p.path.segments.last().map(|s| s.ident.to_string()),
        Expr::Call(c) => {
            // Ok(Self::X) / Err(..)
            let f = c.func.to_token_stream().to_string();
            if f == "Ok" && c.args.len() == 1 { last_ident(&c.args[0]) } else if f == "Err" { Some("<Err>".to_string()) } else { None }
        }
        Expr::Paren(p) => last_ident(&p.expr),
        _ => None,
    }
}
fn lit_of_write(e: &Expr) -> Option<String> {
    if let Expr::Macro(m) = e {
        if m.mac.path.segments.last().map(|s| s.ident == "write").unwrap_or(false) {
            let toks: Vec<proc_macro2::TokenTree> = m.mac.tokens.clone().into_iter().collect();
            // f , "LIT"   (no further arguments)
            if toks.len() == 3 {
                if let proc_macro2::TokenTree::Literal(l) = &toks[2] {
                    if let Ok(Lit::Str(s)) = syn::parse_str::<Lit>(&l.to_string()) { return Some(s.value()); }
                }
            }
        }
    }
    None
}
fn pat_variant(p: &Pat) -> Option<String> {
    match p {
        Pat::Path(pp) => pp.path.segments.last().map(|s| s.ident.to_string()),
        Pat::Ident(pi) => Some(pi.ident.to_string()),
        Pat::TupleStruct(t) => t.path.segments.last().map(|s| s.ident.to_string()),
        _ => None,
    }
}
pub fn table(fn_text: &str, _ty: &str) -> Value {
    let f: ImplItemFn = match syn::parse_str(fn_text) { Ok(f) => f, Err(_) => return json!({"error": "cannot parse"}) };
    // the body must be exactly one match expression
    let stmts = &f.block.stmts;
    if stmts.len() != 1 { return json!({"error": "body is not a single match"}); }
    let m = match &stmts[0] { Stmt::Expr(Expr::Match(m), _) => m, _ => return json!({"error": "body is not a single match"}) };
    let mut arms = vec![];
    for a in &m.arms {
        if a.guard.is_some() { return json!({"error": "guarded arm"}); }
        let body: &Expr = match &*a.body { Expr::Block(b) if b.block.stmts.len() == 1 => match &b.block.stmts[0] { Stmt::Expr(e, _) => e, _ => &a.body }, e => e };
        match &a.pat {
            Pat::Lit(l) => {
                if let Lit::Str(s) = &l.lit { arms.push(json!({"text": s.value(), "variant": last_ident(body)})); } else { return json!({"error": "non-string literal pattern"}); }
            }
            Pat::Wild(_) => arms.push(json!({"text": null, "variant": last_ident(body)})),
            p => match (pat_variant(p), lit_of_write(body)) {
                (Some(v), Some(t)) => arms.push(json!({"variant": v, "text": t})),
                _ => return json!({"error": format!("unsupported arm `{}`", a.pat.to_token_stream())}),
            },
        }
    }
    json!({"arms": arms})
}

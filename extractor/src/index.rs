//! Source index over /repo/src: traits, impls, free functions, type definitions, constants
//! and the single-argument `macro_rules!` impl generators (expanded by token substitution).

use crate::die;
use proc_macro2::{TokenStream, TokenTree};
use quote::ToTokens;
use std::collections::{BTreeMap, BTreeSet};
use syn::*;

#[derive(Clone, Debug)]
pub enum Owner {
    Free,
    /// default method of a trait
    TraitDefault(String),
    /// inherent impl: (type name, impl generics idents)
    Inherent(String),
    /// trait impl: (normalized "Trait for Ty" string, self type name, trait name)
    TraitImpl(String, String, String),
}

#[derive(Clone)]
pub struct FnSrc {
    pub file: String,
    pub line: usize,
    pub end_line: usize,
    pub owner: Owner,
    pub text: String,
    /// generics of the enclosing impl/trait (idents that denote the implementor)
    pub implementor_idents: Vec<String>,
    pub from_macro: Option<String>,
    /// for trait impls: (lifetime generics, trait path tokens, self type tokens)
    pub impl_header: Option<(String, String, String)>,
}

#[derive(Clone, Default)]
pub struct TraitInfo {
    pub supers: Vec<String>,
    pub methods: BTreeSet<String>,
    pub consts: BTreeSet<String>,
    pub types: BTreeSet<String>,
    pub file: String,
}

#[derive(Clone)]
pub struct TypeSrc {
    pub file: String,
    pub line: usize,
    pub text: String,
}

#[derive(Clone)]
pub struct ConstSrc {
    pub file: String,
    pub line: usize,
    pub text: String,
}

#[derive(Default)]
pub struct Index {
    /// selector -> original source text ("trait:Name", "impl:Trait for Ty", "fn:name", "const:NAME")
    pub raw: BTreeMap<String, Vec<(String, usize, String)>>,
    pub fns: BTreeMap<String, Vec<FnSrc>>,
    pub traits: BTreeMap<String, TraitInfo>,
    pub types: BTreeMap<String, TypeSrc>,
    /// key: "NAME" for free consts, "Owner::NAME" for impl consts (Owner = self type name + "|" + trait)
    pub consts: BTreeMap<String, Vec<ConstSrc>>,
    /// (self type name, trait name) -> assoc type name -> type text
    pub impl_types: BTreeMap<(String, String), BTreeMap<String, String>>,
    macros: BTreeMap<String, TokenStream>,
}

pub fn norm(s: &str) -> String {
    // remove whitespace and lifetimes
    let mut out = String::new();
    let cs: Vec<char> = s.chars().collect();
    let mut i = 0;
    while i < cs.len() {
        let c = cs[i];
        if c.is_whitespace() {
            i += 1;
            continue;
        }
        if c == '\'' {
            // lifetime: skip ident chars
            let mut j = i + 1;
            while j < cs.len() && (cs[j].is_alphanumeric() || cs[j] == '_') {
                j += 1;
            }
            // a char literal like 'a' would end with a quote; not expected in type positions
            i = j;
            continue;
        }
        out.push(c);
        i += 1;
    }
    out
}

fn last_ident_of_type(ty: &Type) -> String {
    match ty {
        Type::Path(p) => p.path.segments.last().map(|s| s.ident.to_string()).unwrap_or_default(),
        Type::Reference(r) => last_ident_of_type(&r.elem),
        _ => norm(&ty.to_token_stream().to_string()),
    }
}

fn implementor_idents(g: &Generics, traits: &BTreeSet<String>) -> Vec<String> {
    let mut v = vec![];
    for p in g.type_params() {
        let mut is_impl = false;
        for b in &p.bounds {
            if let TypeParamBound::Trait(t) = b {
                if let Some(s) = t.path.segments.last() {
                    if traits.contains(&s.ident.to_string()) {
                        is_impl = true;
                    }
                }
            }
        }
        if is_impl {
            v.push(p.ident.to_string());
        }
    }
    v
}

fn slice_text(src: &str, span: proc_macro2::Span) -> String {
    let r = span.byte_range();
    src.get(r).unwrap_or("").to_string()
}

impl Index {
    pub fn build(dir: &str) -> Index {
        let mut files: Vec<String> = vec![];
        collect(dir, &mut files);
        files.sort();
        let mut parsed: Vec<(String, String, File)> = vec![];
        for f in files {
            let src = std::fs::read_to_string(&f).unwrap_or_else(|e| die(&format!("read {}: {}", f, e)));
            let ast = parse_file(&src).unwrap_or_else(|e| die(&format!("parse {}: {}", f, e)));
            let rel = f.strip_prefix(dir).unwrap_or(&f).trim_start_matches('/').to_string();
            parsed.push((rel, src, ast));
        }
        let mut idx = Index::default();
        // pass 1: trait names, macros
        let mut trait_names = BTreeSet::new();
        for (_, _, ast) in &parsed {
            for it in &ast.items {
                match it {
                    Item::Trait(t) => {
                        trait_names.insert(t.ident.to_string());
                    }
                    Item::Macro(m) => {
                        if m.mac.path.is_ident("macro_rules") {
                            if let Some(name) = &m.ident {
                                idx.macros.insert(name.to_string(), m.mac.tokens.clone());
                            }
                        }
                    }
                    _ => {}
                }
            }
        }
        for (rel, src, ast) in &parsed {
            idx.index_items(rel, src, &ast.items, &trait_names, None, "");
        }
        idx
    }

    fn index_items(&mut self, rel: &str, src: &str, items: &[Item], trait_names: &BTreeSet<String>, from_macro: Option<String>, modpath: &str) {
        for it in items {
            if from_macro.is_none() {
                let sel: Option<String> = match it {
                    Item::Trait(t) => Some(format!("trait:{}", t.ident)),
                    Item::Impl(im) => Some(match &im.trait_ {
                        Some((_, p, _)) => format!("impl:{}for{}", norm(&p.to_token_stream().to_string()), norm(&im.self_ty.to_token_stream().to_string())),
                        None => format!("impl:{}", norm(&im.self_ty.to_token_stream().to_string())),
                    }),
                    Item::Fn(f) => Some(format!("fn:{}", f.sig.ident)),
                    Item::Const(c) => Some(format!("const:{}", c.ident)),
                    Item::Struct(s) => Some(format!("type:{}", s.ident)),
                    Item::Enum(e) => Some(format!("type:{}", e.ident)),
                    Item::Mod(m) if m.content.is_some() => Some(format!("mod:{}", m.ident)),
                    _ => None,
                };
                if let Some(sel) = sel {
                    let sp = syn::spanned::Spanned::span(it);
                    self.raw.entry(sel).or_default().push((rel.to_string(), sp.start().line, slice_text(src, sp)));
                }
            }
            match it {
                Item::Trait(t) => {
                    let name = t.ident.to_string();
                    let mut info = TraitInfo { file: rel.to_string(), ..Default::default() };
                    for b in &t.supertraits {
                        if let TypeParamBound::Trait(tb) = b {
                            if let Some(s) = tb.path.segments.last() {
                                info.supers.push(s.ident.to_string());
                            }
                        }
                    }
                    for ti in &t.items {
                        match ti {
                            TraitItem::Fn(f) => {
                                info.methods.insert(f.sig.ident.to_string());
                                if f.default.is_some() {
                                    let fs = FnSrc {
                                        file: rel.to_string(),
                                        line: f.sig.ident.span().start().line,
                                        end_line: f.default.as_ref().unwrap().brace_token.span.close().end().line,
                                        owner: Owner::TraitDefault(name.clone()),
                                        text: slice_text(src, syn::spanned::Spanned::span(f)),
                                        implementor_idents: vec!["Self".to_string()],
                                        from_macro: None,
                                        impl_header: None,
                                    };
                                    self.fns.entry(format!("{}::{}", name, f.sig.ident)).or_default().push(fs);
                                }
                            }
                            TraitItem::Const(c) => {
                                info.consts.insert(c.ident.to_string());
                            }
                            TraitItem::Type(ty) => {
                                info.types.insert(ty.ident.to_string());
                            }
                            _ => {}
                        }
                    }
                    self.traits.insert(name, info);
                }
                Item::Impl(im) => {
                    let self_name = last_ident_of_type(&im.self_ty);
                    let impl_ids = implementor_idents(&im.generics, trait_names);
                    let (owner, tname) = match &im.trait_ {
                        None => (Owner::Inherent(self_name.clone()), String::new()),
                        Some((_, p, _)) => {
                            let tn = p.segments.last().map(|s| s.ident.to_string()).unwrap_or_default();
                            let key = format!("{}for{}", norm(&p.to_token_stream().to_string()), norm(&im.self_ty.to_token_stream().to_string()));
                            (Owner::TraitImpl(key, self_name.clone(), tn.clone()), tn)
                        }
                    };
                    for ii in &im.items {
                        match ii {
                            ImplItem::Fn(f) => {
                                let text = if from_macro.is_some() { f.to_token_stream().to_string() } else { slice_text(src, syn::spanned::Spanned::span(f)) };
                                let fs = FnSrc {
                                    file: rel.to_string(),
                                    line: f.sig.ident.span().start().line,
                                    end_line: f.block.brace_token.span.close().end().line,
                                    owner: owner.clone(),
                                    text,
                                    implementor_idents: impl_ids.clone(),
                                    from_macro: from_macro.clone(),
                                    impl_header: im.trait_.as_ref().map(|(_, p, _)| {
                                        let lts: Vec<String> = im.generics.lifetimes().map(|l| l.lifetime.to_string()).collect();
                                        (lts.join(", "), p.to_token_stream().to_string(), im.self_ty.to_token_stream().to_string())
                                    }),
                                };
                                let key = match &owner {
                                    Owner::Inherent(n) => format!("{}::{}", n, f.sig.ident),
                                    Owner::TraitImpl(k, _, _) => format!("[{}]::{}", k, f.sig.ident),
                                    _ => unreachable!(),
                                };
                                self.fns.entry(key).or_default().push(fs);
                            }
                            ImplItem::Type(t) => {
                                self.impl_types.entry((self_name.clone(), tname.clone())).or_default().insert(t.ident.to_string(), t.ty.to_token_stream().to_string());
                            }
                            ImplItem::Const(c) => {
                                let cs = ConstSrc { file: rel.to_string(), line: c.ident.span().start().line, text: slice_text(src, syn::spanned::Spanned::span(c)) };
                                self.consts.entry(format!("{}|{}::{}", self_name, tname, c.ident)).or_default().push(cs);
                            }
                            _ => {}
                        }
                    }
                }
                Item::Fn(f) => {
                    let fs = FnSrc {
                        file: rel.to_string(),
                        line: f.sig.ident.span().start().line,
                        end_line: f.block.brace_token.span.close().end().line,
                        owner: Owner::Free,
                        text: slice_text(src, syn::spanned::Spanned::span(f)),
                        implementor_idents: implementor_idents(&f.sig.generics, trait_names),
                        from_macro: None,
                        impl_header: None,
                    };
                    self.fns.entry(format!("{}{}", modpath, f.sig.ident)).or_default().push(fs);
                }
                Item::Struct(s) => {
                    self.types.insert(s.ident.to_string(), TypeSrc { file: rel.to_string(), line: s.ident.span().start().line, text: slice_text(src, syn::spanned::Spanned::span(s)) });
                }
                Item::Enum(e) => {
                    self.types.insert(e.ident.to_string(), TypeSrc { file: rel.to_string(), line: e.ident.span().start().line, text: slice_text(src, syn::spanned::Spanned::span(e)) });
                }
                Item::Const(c) => {
                    let cs = ConstSrc { file: rel.to_string(), line: c.ident.span().start().line, text: slice_text(src, syn::spanned::Spanned::span(c)) };
                    self.consts.entry(format!("{}{}", modpath, c.ident)).or_default().push(cs);
                }
                Item::Mod(m) => {
                    if let Some((_, its)) = &m.content {
                        let is_test = m.attrs.iter().any(|a| a.to_token_stream().to_string().contains("test"));
                        if !is_test {
                            let mp = format!("{}{}::", modpath, m.ident);
                            self.index_items(rel, src, its, trait_names, from_macro.clone(), &mp);
                        }
                    }
                }
                Item::Macro(m) => {
                    // invocation of one of the crate's own single-ident impl generators
                    if let Some(name) = m.mac.path.get_ident() {
                        let name = name.to_string();
                        if let Some(def) = self.macros.get(&name).cloned() {
                            let arg = m.mac.tokens.to_string();
                            let arg = arg.trim().to_string();
                            if let Some(expanded) = expand_macro(&def, &arg) {
                                match syn::parse2::<File>(expanded) {
                                    Ok(f) => {
                                        let line = m.mac.path.segments[0].ident.span().start().line;
                                        let tag = format!("{}!({}) at {}:{}", name, arg, rel, line);
                                        self.index_items(rel, src, &f.items, trait_names, Some(tag), modpath);
                                    }
                                    Err(e) => die(&format!("macro expansion of {}!({}) does not parse: {}", name, arg, e)),
                                }
                            }
                        }
                    }
                }
                _ => {}
            }
        }
    }

    pub fn raw_item(&self, sel: &str) -> String {
        let (kind, rest) = sel.split_once(':').unwrap_or_else(|| die(&format!("bad raw selector {}", sel)));
        let (rest, file) = match rest.split_once('@') { Some((a, b)) => (a, b), None => (rest, "") };
        let key = if kind == "impl" { format!("impl:{}", norm(&rest.replacen(" for ", "for", 1))) } else { format!("{}:{}", kind, rest) };
        match self.raw.get(&key) {
            None => die(&format!("lost anchor: item `{}` not found in /repo/src", sel)),
            Some(v) => {
                let c: Vec<_> = v.iter().filter(|x| file.is_empty() || x.0 == file).collect();
                if c.len() != 1 {
                    die(&format!("lost anchor: item `{}` matches {} definitions", sel, c.len()));
                }
                format!("// extracted unchanged from src/{}:{}\n{}", c[0].0, c[0].1, c[0].2)
            }
        }
    }

    pub fn lookup_fn(&self, key: &str, file: &str) -> FnSrc {
        let k = if key.starts_with('[') {
            // normalise the bracket part
            let end = key.rfind("]::").unwrap_or_else(|| die(&format!("bad impl key {}", key)));
            let inner = &key[1..end];
            let inner_n = norm(&inner.replacen(" for ", "for", 1));
            format!("[{}]::{}", inner_n, &key[end + 3..])
        } else {
            key.to_string()
        };
        match self.fns.get(&k) {
            None => die(&format!("lost anchor: function `{}` not found in /repo/src (normalised `{}`)", key, k)),
            Some(v) => {
                let c: Vec<&FnSrc> = v.iter().filter(|f| file.is_empty() || f.file == file).collect();
                if c.len() != 1 {
                    die(&format!("lost anchor: function `{}` matches {} definitions (use `file`)", key, c.len()));
                }
                c[0].clone()
            }
        }
    }

    /// which trait (own first, then supertraits, breadth first) declares `name`
    pub fn find_trait_member(&self, start: &str, name: &str) -> Option<String> {
        let mut queue = vec![start.to_string()];
        let mut seen = BTreeSet::new();
        while !queue.is_empty() {
            let t = queue.remove(0);
            if !seen.insert(t.clone()) {
                continue;
            }
            if let Some(info) = self.traits.get(&t) {
                if info.methods.contains(name) || info.consts.contains(name) {
                    return Some(t);
                }
                for s in &info.supers {
                    queue.push(s.clone());
                }
            }
        }
        None
    }

    pub fn find_trait_member_global(&self, name: &str) -> Vec<String> {
        self.traits.iter().filter(|(_, i)| i.methods.contains(name) || i.consts.contains(name)).map(|(n, _)| n.clone()).collect()
    }

    pub fn is_trait_const(&self, tr: &str, name: &str) -> bool {
        self.traits.get(tr).map(|i| i.consts.contains(name)).unwrap_or(false)
    }
}

fn collect(dir: &str, out: &mut Vec<String>) {
    let rd = std::fs::read_dir(dir).unwrap_or_else(|e| die(&format!("read_dir {}: {}", dir, e)));
    for e in rd {
        let e = e.unwrap();
        let p = e.path();
        if p.is_dir() {
            collect(p.to_str().unwrap(), out);
        } else if p.extension().map(|x| x == "rs").unwrap_or(false) {
            out.push(p.to_str().unwrap().to_string());
        }
    }
}

/// macro_rules body of the form `($name:ident) => { ... };` — substitute `$name`.
fn expand_macro(def: &TokenStream, arg: &str) -> Option<TokenStream> {
    let tts: Vec<TokenTree> = def.clone().into_iter().collect();
    // pattern group, =, >, body group
    if tts.len() < 4 {
        return None;
    }
    let pat = match &tts[0] {
        TokenTree::Group(g) => g.stream().to_string(),
        _ => return None,
    };
    let pn = norm(&pat);
    if !pn.starts_with('$') || !pn.ends_with(":ident") {
        return None;
    }
    let var = pn[1..pn.len() - ":ident".len()].to_string();
    let body = match &tts[3] {
        TokenTree::Group(g) => g.stream(),
        _ => return None,
    };
    Some(subst(body, &var, arg))
}

fn subst(ts: TokenStream, var: &str, arg: &str) -> TokenStream {
    let mut out = TokenStream::new();
    let tts: Vec<TokenTree> = ts.into_iter().collect();
    let mut i = 0;
    while i < tts.len() {
        match &tts[i] {
            TokenTree::Punct(p) if p.as_char() == '$' && i + 1 < tts.len() => {
                if let TokenTree::Ident(id) = &tts[i + 1] {
                    if id == var {
                        out.extend(std::iter::once(TokenTree::Ident(proc_macro2::Ident::new(arg, id.span()))));
                        i += 2;
                        continue;
                    }
                }
                out.extend(std::iter::once(tts[i].clone()));
            }
            TokenTree::Group(g) => {
                let inner = subst(g.stream(), var, arg);
                let mut ng = proc_macro2::Group::new(g.delimiter(), inner);
                ng.set_span(g.span());
                out.extend(std::iter::once(TokenTree::Group(ng)));
            }
            t => out.extend(std::iter::once(t.clone())),
        }
        i += 1;
    }
    out
}

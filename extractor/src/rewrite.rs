//! The extraction rules E1..E11 (DESIGN.md §2.2) as a syn VisitMut, and item emission.

use crate::die;
use crate::index::{norm, FnSrc, Index, Owner};
use crate::print;
use crate::spec::{Clause, ConstSpec, FnSpec, TypeSpec};
use proc_macro2::{Ident, Span, TokenStream};
use quote::{quote, ToTokens};
use std::collections::{BTreeMap, BTreeSet};
use syn::visit_mut::{self, VisitMut};
use syn::*;

const OPAQUE_COPY: &[&str] = &["Sig", "Pk", "Gt", "Scalar"];
const IMPLEMENTOR_STRUCTS: &[&str] = &["Bls12381G1Impl", "Bls12381G2Impl"];

fn impl_assoc(name: &str, tr: Option<&str>) -> Option<&'static str> {
    Some(match name {
        "Signature" => "Sig",
        "PublicKey" => "Pk",
        "PairingResult" => "Gt",
        "SignatureShare" => "SigShare",
        "PublicKeyShare" => "PkShare",
        "SecretKeyShare" => "SkShare",
        "PublicKeyHasher" => "PkHasher",
        "Output" => match tr {
            Some("HashToPoint") => "Sig",
            Some("HashToScalar") => "Scalar",
            _ => return None,
        },
        _ => return None,
    })
}

fn ty_assoc(head: &str, name: &str) -> Option<&'static str> {
    Some(match (head, name) {
        ("Sig", "Scalar") | ("Pk", "Scalar") | ("Gt", "Scalar") => "Scalar",
        ("Sig", "Repr") => "SigRepr",
        ("Pk", "Repr") => "PkRepr",
        ("Gt", "Repr") => "GtRepr",
        ("Scalar", "Repr") => "ScalarRepr",
        ("SigShare", "Identifier") | ("PkShare", "Identifier") | ("SkShare", "Identifier") => "u8",
        ("PkHasher", "Output") => "Pk",
        _ => return None,
    })
}

#[derive(Clone, Debug)]
enum Head {
    Impl,
    Ty(String),
}

pub static PINNED_NAMES: std::sync::OnceLock<serde_json::Map<String, serde_json::Value>> = std::sync::OnceLock::new();
pub static LENIENT: std::sync::atomic::AtomicBool = std::sync::atomic::AtomicBool::new(false);
thread_local! { pub static LOST: std::cell::RefCell<Vec<String>> = std::cell::RefCell::new(vec![]); }
/// strict mode: exit 2.  lenient mode (second attempt of the driver): the annotation is dropped
/// and recorded; failures of such a function are only reported when a witness replays.
fn lost(msg: String) {
    if LENIENT.load(std::sync::atomic::Ordering::Relaxed) {
        LOST.with(|l| l.borrow_mut().push(msg));
    } else {
        die(&format!("lost anchor: {}", msg));
    }
}

pub struct Rw<'a> {
    idx: &'a Index,
    fs: &'a FnSpec,
    tags: &'a [String],
    debug_view: bool,
    owner: Owner,
    impl_idents: Vec<String>,
    own_trait: Option<String>,
    self_name: Option<String>,
    /// text that replaces `Self` (TraitImpl owners emitted as free functions)
    self_subst: Option<String>,
    byte_generics: BTreeMap<String, String>,
    iter_generics: BTreeMap<String, String>,
    dropped_generics: BTreeSet<String>,
    byte_params: BTreeSet<String>,
    iter_params: BTreeSet<String>,
    ref_params: BTreeSet<String>,
    pub splices: Vec<String>,
    loop_ctr: usize,
    closure_ctr: usize,
    collect_ctr: usize,
    stats: &'a mut BTreeMap<String, usize>,
    used_loops: BTreeSet<usize>,
    used_closures: BTreeSet<usize>,
    hint_occ: BTreeMap<String, usize>,
    used_hints: BTreeSet<usize>,
    used_annots: BTreeSet<String>,
    local_byte_consts: BTreeSet<String>,
    src_file: String,
}

fn sel(tags: &[String], want: &[String]) -> bool {
    tags.is_empty() || tags.iter().any(|t| t == "common" || want.contains(t))
}

fn parse_ty(s: &str) -> Type {
    parse_str::<Type>(s).unwrap_or_else(|e| die(&format!("internal: cannot parse type `{}`: {}", s, e)))
}
fn parse_ex(s: &str) -> Expr {
    parse_str::<Expr>(s).unwrap_or_else(|e| die(&format!("internal: cannot parse expr `{}`: {}", s, e)))
}

impl<'a> Rw<'a> {
    fn bump(&mut self, rule: &str) {
        *self.stats.entry(rule.to_string()).or_insert(0) += 1;
    }

    fn splice(&mut self, text: String) -> Ident {
        let n = self.splices.len();
        self.splices.push(text);
        Ident::new(&format!("__VSPLICE_{}__", n), Span::call_site())
    }

    fn is_impl_ident(&self, s: &str) -> bool {
        self.impl_idents.iter().any(|x| x == s)
    }

    /// Try to reduce the head of a (qself, path).  Returns (head, explicit trait, consumed segments).
    fn head_of(&mut self, qself: &Option<QSelf>, path: &Path) -> Option<(Head, Option<String>, usize)> {
        if let Some(q) = qself {
            let h = self.type_head(&q.ty)?;
            let tr = if q.position > 0 { Some(path.segments[q.position - 1].ident.to_string()) } else { None };
            return Some((h, tr, q.position));
        }
        let first = path.segments.first()?;
        let id = first.ident.to_string();
        if self.is_impl_ident(&id) {
            return Some((Head::Impl, None, 1));
        }
        if id == "Self" {
            if let Some(n) = &self.self_name {
                if path.segments.len() >= 2 {
                    return Some((Head::Ty(n.clone()), None, 1));
                }
            }
        }
        None
    }

    fn type_head(&mut self, ty: &Type) -> Option<Head> {
        match ty {
            Type::Path(tp) => {
                if tp.qself.is_none() && tp.path.segments.len() == 1 {
                    let id = tp.path.segments[0].ident.to_string();
                    if self.is_impl_ident(&id) {
                        return Some(Head::Impl);
                    }
                    if id == "Self" {
                        if let Some(n) = &self.self_name {
                            return Some(Head::Ty(n.clone()));
                        }
                    }
                    return Some(Head::Ty(id));
                }
                let (h, tr, used) = self.head_of(&tp.qself, &tp.path)?;
                let rest: Vec<PathSegment> = tp.path.segments.iter().skip(used).cloned().collect();
                match self.reduce(h, tr, &rest, true)? {
                    Reduced::Type(t) => Some(Head::Ty(t)),
                    _ => None,
                }
            }
            Type::Paren(p) => self.type_head(&p.elem),
            _ => None,
        }
    }

    fn reduce(&mut self, mut head: Head, mut tr: Option<String>, rest: &[PathSegment], type_pos: bool) -> Option<Reduced> {
        let mut i = 0;
        loop {
            if i >= rest.len() {
                return match head {
                    Head::Ty(t) => Some(Reduced::Type(t)),
                    Head::Impl => None,
                };
            }
            let name = rest[i].ident.to_string();
            match &head {
                Head::Impl => {
                    if let Some(t) = impl_assoc(&name, tr.as_deref()) {
                        self.bump("E2.assoc_type");
                        head = Head::Ty(t.to_string());
                        tr = None;
                        i += 1;
                        continue;
                    }
                    if type_pos {
                        return None;
                    }
                    // trait method or const
                    let t = match &tr {
                        Some(t) if self.idx.traits.contains_key(t) => Some(t.clone()),
                        _ => {
                            let mut found = None;
                            if let Some(own) = &self.own_trait {
                                found = self.idx.find_trait_member(own, &name);
                            }
                            if found.is_none() {
                                let g = self.idx.find_trait_member_global(&name);
                                if g.len() == 1 {
                                    found = Some(g[0].clone());
                                } else if g.len() > 1 {
                                    // prefer the most derived declared bound order is unknown: ambiguous
                                    die(&format!("unsupported: ambiguous trait member `{}` in {} (candidates {:?})", name, self.fs.key, g));
                                }
                            }
                            found
                        }
                    };
                    let t = t?;
                    if i + 1 != rest.len() {
                        die(&format!("unsupported: path continues after trait member `{}` in {}", name, self.fs.key));
                    }
                    self.bump("E1.trait_member");
                    let is_const = self.idx.is_trait_const(&t, &name);
                    return Some(Reduced::Value(format!("{}__{}", t, name), is_const, rest[i].arguments.clone()));
                }
                Head::Ty(t) => {
                    if let Some(n) = ty_assoc(t, &name) {
                        self.bump("E2.assoc_type");
                        head = Head::Ty(n.to_string());
                        tr = None;
                        i += 1;
                        continue;
                    }
                    // associated type of one of blsful's own impls (e.g. Self::Error)
                    let mut found: Option<String> = None;
                    let mut cands: Vec<String> = vec![];
                    let cur_tr: Option<String> = match (&tr, &self.owner) {
                        (Some(t), _) => Some(t.clone()),
                        (None, Owner::TraitImpl(_, _, t)) => Some(t.clone()),
                        _ => None,
                    };
                    for ((sn, tn), m) in self.idx.impl_types.iter() {
                        if sn == t {
                            if let Some(x) = m.get(&name) {
                                if Some(tn) == cur_tr.as_ref() {
                                    found = Some(x.clone());
                                }
                                cands.push(x.clone());
                            }
                        }
                    }
                    if found.is_none() {
                        cands.dedup();
                        if cands.len() == 1 {
                            found = Some(cands[0].clone());
                        } else if cands.len() > 1 {
                            die(&format!("unsupported: ambiguous associated type `{}::{}` in {}", t, name, self.fs.key));
                        }
                    }
                    if let (Some(x), true) = (found, name.chars().next().map(|c| c.is_uppercase()).unwrap_or(false) && !is_screaming(&name)) {
                        let ty = parse_ty(&x);
                        let mut ty2 = ty.clone();
                        self.visit_type_mut(&mut ty2);
                        let s = norm_ty(&ty2);
                        head = Head::Ty(s);
                        tr = None;
                        i += 1;
                        continue;
                    }
                    // plain path  T::rest
                    let mut s = t.clone();
                    let mut last_args = PathArguments::None;
                    for (k, seg) in rest.iter().enumerate().skip(i) {
                        s.push_str("::");
                        s.push_str(&seg.ident.to_string());
                        if k + 1 == rest.len() {
                            last_args = seg.arguments.clone();
                        } else if !seg.arguments.is_none() {
                            let mut a = seg.arguments.clone();
                            self.visit_path_arguments_mut(&mut a);
                            s.push_str(&a.to_token_stream().to_string());
                        }
                    }
                    let lastn = rest.last().unwrap().ident.to_string();
                    let is_const = is_screaming(&lastn) && OPAQUE_COPY.contains(&t.as_str());
                    if type_pos {
                        return Some(Reduced::Type(s));
                    }
                    return Some(Reduced::Value(s, is_const, last_args));
                }
            }
        }
    }

    fn filter_generic_args(&mut self, args: &mut PathArguments) {
        if let PathArguments::AngleBracketed(ab) = args {
            let mut kept: punctuated::Punctuated<GenericArgument, Token![,]> = punctuated::Punctuated::new();
            for a in ab.args.iter() {
                let drop = match a {
                    GenericArgument::Type(Type::Path(tp)) if tp.qself.is_none() && tp.path.segments.len() == 1 => {
                        let id = tp.path.segments[0].ident.to_string();
                        self.is_impl_ident(&id) || IMPLEMENTOR_STRUCTS.contains(&id.as_str()) || self.byte_generics.contains_key(&id) || self.dropped_generics.contains(&id)
                    }
                    _ => false,
                };
                if drop {
                    self.bump("E2.generic_arg_dropped");
                } else {
                    kept.push(a.clone());
                }
            }
            if kept.is_empty() {
                *args = PathArguments::None;
            } else {
                ab.args = kept;
            }
        }
    }

    /// E14: a tuple-struct constructor used as a function value becomes an annotated closure
    fn ctor_closure(&mut self, e: &Expr) -> Option<Expr> {
        let p = match e { Expr::Path(p) if p.qself.is_none() && p.path.segments.len() == 1 => p, _ => return None };
        let mut name = p.path.segments[0].ident.to_string();
        if name == "Self" {
            name = self.self_name.clone()?;
        }
        let src = self.idx.types.get(&name)?;
        let st: ItemStruct = parse_str(&src.text).ok()?;
        let f = match &st.fields { Fields::Unnamed(u) if u.unnamed.len() == 1 => u.unnamed[0].clone(), _ => return None };
        // the field type is written in terms of the struct's own implementor parameter
        let saved = self.impl_idents.clone();
        for tp in st.generics.type_params() {
            if !self.impl_idents.contains(&tp.ident.to_string()) {
                self.impl_idents.push(tp.ident.to_string());
            }
        }
        let mut fty = f.ty.clone();
        self.visit_type_mut(&mut fty);
        self.impl_idents = saved;
        self.bump("E14.ctor_closure");
        let hdr = self.splice(format!("-> (o__: {}) ensures o__.0 == v__", name));
        let sid = Ident::new(&name, Span::call_site());
        Some(Expr::Verbatim(quote!( | v__ : #fty | #hdr { #sid ( v__ ) } )))
    }

    fn callee_iter_params(&self, name: &str) -> Vec<usize> {
        // name is Trait__method
        let key = name.replace("__", "::");
        let v = match self.idx.fns.get(&key) {
            Some(v) if v.len() == 1 => &v[0],
            _ => return vec![],
        };
        let sig = match parse_any_fn(&v.text) {
            Some((s, _)) => s,
            None => return vec![],
        };
        let its = iter_generics_of(&sig.generics);
        let mut out = vec![];
        let mut k = 0;
        for inp in sig.inputs.iter() {
            if let FnArg::Typed(pt) = inp {
                if let Type::Path(tp) = &*pt.ty {
                    if tp.qself.is_none() && tp.path.segments.len() == 1 && its.contains_key(&tp.path.segments[0].ident.to_string()) {
                        out.push(k);
                    }
                }
                k += 1;
            }
        }
        out
    }
}

/// matches  X.iter().copied().chain(Y.iter().copied())  and returns (X, Y)
fn match_copied_chain(e: &Expr) -> Option<(Expr, Expr)> {
    fn iter_copied(e: &Expr) -> Option<Expr> {
        if let Expr::MethodCall(c) = e {
            if c.method == "copied" && c.args.is_empty() {
                if let Expr::MethodCall(i) = &*c.receiver {
                    if i.method == "iter" && i.args.is_empty() {
                        return Some((*i.receiver).clone());
                    }
                }
            }
        }
        None
    }
    if let Expr::MethodCall(ch) = e {
        if ch.method == "chain" && ch.args.len() == 1 {
            let x = iter_copied(&ch.receiver)?;
            let y = iter_copied(&ch.args[0])?;
            return Some((x, y));
        }
    }
    None
}

fn is_screaming(s: &str) -> bool {
    s.len() > 1 && s.chars().all(|c| c.is_ascii_uppercase() || c.is_ascii_digit() || c == '_')
}

fn norm_ty(t: &Type) -> String {
    t.to_token_stream().to_string()
}

enum Reduced {
    Type(String),
    Value(String, bool, PathArguments),
}

fn iter_generics_of(g: &Generics) -> BTreeMap<String, String> {
    let mut m = BTreeMap::new();
    let mut check = |id: &Ident, bounds: &punctuated::Punctuated<TypeParamBound, Token![+]>| {
        for b in bounds {
            if let TypeParamBound::Trait(t) = b {
                if let Some(seg) = t.path.segments.last() {
                    if seg.ident == "Iterator" {
                        if let PathArguments::AngleBracketed(ab) = &seg.arguments {
                            for a in &ab.args {
                                if let GenericArgument::AssocType(at) = a {
                                    if at.ident == "Item" {
                                        m.insert(id.to_string(), at.ty.to_token_stream().to_string());
                                    }
                                }
                            }
                        }
                    }
                }
            }
        }
    };
    for p in g.type_params() {
        check(&p.ident, &p.bounds);
    }
    if let Some(w) = &g.where_clause {
        for p in &w.predicates {
            if let WherePredicate::Type(pt) = p {
                if let Type::Path(tp) = &pt.bounded_ty {
                    if let Some(id) = tp.path.get_ident() {
                        check(id, &pt.bounds);
                    }
                }
            }
        }
    }
    m
}

fn byte_generics_of(g: &Generics, want_u8: bool) -> BTreeMap<String, String> {
    let mut m = BTreeMap::new();
    let mut check = |id: &Ident, bounds: &punctuated::Punctuated<TypeParamBound, Token![+]>| {
        for b in bounds {
            if let TypeParamBound::Trait(t) = b {
                if let Some(seg) = t.path.segments.last() {
                    if seg.ident == "AsRef" {
                        if let PathArguments::AngleBracketed(ab) = &seg.arguments {
                            if let Some(GenericArgument::Type(Type::Slice(sl))) = ab.args.first() {
                                let el = sl.elem.to_token_stream().to_string();
                                if el == "u8" {
                                    if want_u8 { m.insert(id.to_string(), "u8".to_string()); }
                                } else if !want_u8 {
                                    m.insert(id.to_string(), format!("&[{}]", el));
                                }
                            }
                        }
                    }
                }
            }
        }
    };
    for p in g.type_params() {
        check(&p.ident, &p.bounds);
    }
    if let Some(w) = &g.where_clause {
        for p in &w.predicates {
            if let WherePredicate::Type(pt) = p {
                if let Type::Path(tp) = &pt.bounded_ty {
                    if let Some(id) = tp.path.get_ident() {
                        check(id, &pt.bounds);
                    }
                }
            }
        }
    }
    m
}

pub fn parse_any_fn(text: &str) -> Option<(Signature, Option<Block>)> {
    if let Ok(f) = parse_str::<ImplItemFn>(text) {
        return Some((f.sig, Some(f.block)));
    }
    if let Ok(f) = parse_str::<TraitItemFn>(text) {
        return Some((f.sig, f.default));
    }
    if let Ok(f) = parse_str::<ItemFn>(text) {
        return Some((f.sig, Some(*f.block)));
    }
    None
}

fn ident_used(ts: TokenStream, name: &str) -> bool {
    for t in ts {
        match t {
            proc_macro2::TokenTree::Ident(i) => {
                if i == name {
                    return true;
                }
            }
            proc_macro2::TokenTree::Group(g) => {
                if ident_used(g.stream(), name) {
                    return true;
                }
            }
            _ => {}
        }
    }
    false
}

fn is_err_text_arg(e: &Expr) -> bool {
    match e {
        Expr::Macro(m) => m.mac.path.is_ident("format"),
        Expr::MethodCall(mc) => mc.method == "to_string" && mc.args.is_empty(),
        _ => false,
    }
}

impl<'a> VisitMut for Rw<'a> {
    fn visit_type_mut(&mut self, ty: &mut Type) {
        if let Type::Path(tp) = ty {
            for seg in tp.path.segments.iter_mut() {
                self.filter_generic_args(&mut seg.arguments);
            }
        }
        match ty {
            Type::Path(tp) => {
                // byte / iterator generics and Self
                if tp.qself.is_none() && tp.path.segments.len() == 1 {
                    let id = tp.path.segments[0].ident.to_string();
                    if let Some(r) = self.byte_generics.get(&id).cloned() {
                        self.bump("E3.byte_generic");
                        let mut t = parse_ty(&r);
                        self.visit_type_mut(&mut t);
                        *ty = t;
                        return;
                    }
                    if let Some(item) = self.iter_generics.get(&id).cloned() {
                        self.bump("E3.iter_generic");
                        let mut t = parse_ty(&format!("Vec<{}>", item));
                        self.visit_type_mut(&mut t);
                        *ty = t;
                        return;
                    }
                    if id == "Self" {
                        if let Some(s) = self.self_subst.clone() {
                            let mut t = parse_ty(&s);
                            self.visit_type_mut(&mut t);
                            *ty = t;
                            return;
                        }
                    }
                }
                if let Some((h, tr, used)) = self.head_of(&tp.qself, &tp.path) {
                    let rest: Vec<PathSegment> = tp.path.segments.iter().skip(used).cloned().collect();
                    if let Some(Reduced::Type(s)) = self.reduce(h, tr, &rest, true) {
                        let mut t = parse_ty(&s);
                        // the result may still carry generic args to clean
                        if let Type::Path(tp2) = &mut t {
                            for seg in tp2.path.segments.iter_mut() {
                                self.filter_generic_args(&mut seg.arguments);
                            }
                        }
                        visit_mut::visit_type_mut(self, &mut t);
                        *ty = t;
                        return;
                    }
                    die(&format!("unsupported: cannot resolve type `{}` in {}", ty.to_token_stream(), self.fs.key));
                }
                visit_mut::visit_type_mut(self, ty);
            }
            Type::ImplTrait(it) => {
                let s = it.to_token_stream().to_string();
                if s.contains("RngCore") || s.contains("CryptoRng") {
                    self.bump("E3.rng");
                    *ty = parse_ty("ChaCha20Rng");
                } else {
                    die(&format!("unsupported: impl Trait type `{}` in {}", s, self.fs.key));
                }
            }
            _ => visit_mut::visit_type_mut(self, ty),
        }
    }

    fn visit_path_mut(&mut self, p: &mut Path) {
        for seg in p.segments.iter_mut() {
            self.filter_generic_args(&mut seg.arguments);
        }
        if let Some(s) = self.self_subst.clone() {
            if p.segments.first().map(|s| s.ident == "Self").unwrap_or(false) {
                if let Ok(tp) = parse_str::<Path>(&s) {
                    let mut np = tp;
                    for seg in p.segments.iter().skip(1) {
                        np.segments.push(seg.clone());
                    }
                    *p = np;
                    for seg in p.segments.iter_mut() {
                        self.filter_generic_args(&mut seg.arguments);
                    }
                }
            }
        }
        visit_mut::visit_path_mut(self, p);
    }

    fn visit_expr_mut(&mut self, e: &mut Expr) {
        match e {
            Expr::Path(ep) => {
                // E4b: `<[u8; N]>::try_from` has no usable Verus specification: routed to the prelude
                // function of the same meaning (assumed contract L-STD)
                if let Some(q) = &ep.qself {
                    if let Type::Array(a) = &*q.ty {
                        if a.elem.to_token_stream().to_string() == "u8" && ep.path.segments.len() == 1 && ep.path.segments[0].ident == "try_from" {
                            let n = a.len.to_token_stream().to_string();
                            self.bump("E4b.array_try_from");
                            *e = parse_ex(&format!("u8_array_try_from::<{{ {} }}>", n));
                            return;
                        }
                    }
                }
                if let Some((h, tr, used)) = self.head_of(&ep.qself, &ep.path) {
                    let rest: Vec<PathSegment> = ep.path.segments.iter().skip(used).cloned().collect();
                    match self.reduce(h, tr, &rest, false) {
                        Some(Reduced::Value(s, is_const, mut args)) => {
                            self.filter_generic_args(&mut args);
                            let mut s2 = s.clone();
                            if !args.is_none() {
                                let mut a = args.clone();
                                self.visit_path_arguments_mut(&mut a);
                                let at = a.to_token_stream().to_string();
                                s2 = if at.trim_start().starts_with("::") { format!("{}{}", s, at) } else { format!("{}::{}", s, at) };
                            }
                            if is_const {
                                self.bump("E4.const_accessor");
                                *e = parse_ex(&format!("{}()", s2));
                            } else {
                                *e = parse_ex(&s2);
                            }
                            return;
                        }
                        Some(Reduced::Type(s)) => {
                            *e = parse_ex(&s);
                            return;
                        }
                        None => die(&format!("unsupported: cannot resolve path `{}` in {}", e.to_token_stream(), self.fs.key)),
                    }
                }
                // E4b: associated constants of opaque dependency types become accessor calls
                if ep.qself.is_none() && ep.path.segments.len() == 2 {
                    let a = ep.path.segments[0].ident.to_string();
                    let b = ep.path.segments[1].ident.to_string();
                    if is_screaming(&b) && (OPAQUE_COPY.contains(&a.as_str()) || a == "G1Projective" || a == "G2Projective") {
                        self.bump("E4.const_accessor");
                        *e = parse_ex(&format!("{}::{}()", a, b));
                        return;
                    }
                }
                // free byte-string constants become accessor calls (E4)
                if ep.qself.is_none() && ep.path.segments.len() == 1 {
                    let id = ep.path.segments[0].ident.to_string();
                    if id == "UNIX_EPOCH" {
                        self.bump("E4.const_accessor");
                        *e = parse_ex("UNIX_EPOCH()");
                        return;
                    }
                    if is_screaming(&id) {
                        // a byte-string const declared inside this function shadows file-level ones
                        if self.local_byte_consts.contains(&id) {
                            self.bump("E4.const_accessor");
                            *e = parse_ex(&format!("{}__{}()", self.fs.key.replace("::", "__"), id));
                            return;
                        }
                        if let Some(cs) = self.idx.consts.get(&id) {
                            if cs.iter().any(|c| c.text.contains("& [u8]") || c.text.contains("&[u8]") || c.text.contains("&'static [u8]")) {
                                self.bump("E4.const_accessor");
                                if cs.len() == 1 {
                                    *e = parse_ex(&format!("{}()", id));
                                } else {
                                    // several files define it: the one of the current file is meant
                                    let stem = self.src_file.rsplit('/').next().unwrap_or("").trim_end_matches(".rs").to_string();
                                    if !cs.iter().any(|c| c.file == self.src_file) {
                                        die(&format!("unsupported: const `{}` not defined in {} (function {})", id, self.src_file, self.fs.key));
                                    }
                                    *e = parse_ex(&format!("{}__{}()", stem, id));
                                }
                                return;
                            }
                        }
                    }
                }
                visit_mut::visit_expr_mut(self, e);
            }
            Expr::MethodCall(mc) => {
                // E3d: X.iter().copied().chain(Y.iter().copied()).collect()  ==>  concat_bytes(X, Y)
                if mc.method == "collect" {
                    if let Some((x, y)) = match_copied_chain(&mc.receiver) {
                        self.bump("E3d.concat_bytes");
                        let mut x = x;
                        let mut y = y;
                        self.visit_expr_mut(&mut x);
                        self.visit_expr_mut(&mut y);
                        *e = Expr::Verbatim(quote!( concat_bytes( #x , #y ) ));
                        return;
                    }
                }
                // E17: OPT.unwrap_or_else(|| E)  ==>  match OPT { Some(v) => v, None => E }   (listed per closure:
                // `closure K inline`; what Option::unwrap_or_else does, without a closure capturing &mut)
                if mc.method == "unwrap_or_else" && mc.args.len() == 1 {
                    if let (Expr::Path(_), Expr::Closure(c)) = (&*mc.receiver, &mc.args[0]) {
                        let k = self.closure_ctr;
                        if c.inputs.is_empty() && self.fs.closures.get(&k).map(|s| s.inline).unwrap_or(false) {
                            self.closure_ctr += 1;
                            self.used_closures.insert(k);
                            self.bump("E17.unwrap_or_else_inlined");
                            let mut x = (*mc.receiver).clone();
                            self.visit_expr_mut(&mut x);
                            let mut body = (*c.body).clone();
                            self.visit_expr_mut(&mut body);
                            *e = Expr::Verbatim(quote!( match #x { Some(v__) => v__, None => #body } ));
                            return;
                        }
                    }
                }
                // E16: X[..N].copy_from_slice(Y) / X[N..].copy_from_slice(Y)  ==>  copy_into_prefix / copy_into_suffix
                //      T.to_le_bytes()  ==>  u64_to_le_bytes(T)
                if mc.method == "copy_from_slice" && mc.args.len() == 1 {
                    if let Expr::Index(ix) = &*mc.receiver {
                        if let Expr::Range(r) = &*ix.index {
                            let helper = match (&r.start, &r.end, &r.limits) {
                                (None, Some(n), RangeLimits::HalfOpen(_)) => Some(("copy_into_prefix", (**n).clone())),
                                (Some(n), None, RangeLimits::HalfOpen(_)) => Some(("copy_into_suffix", (**n).clone())),
                                _ => None,
                            };
                            if let Some((h, mut n)) = helper {
                                self.bump("E16.subslice_copy");
                                let mut x = (*ix.expr).clone();
                                let mut y = mc.args[0].clone();
                                self.visit_expr_mut(&mut x);
                                self.visit_expr_mut(&mut n);
                                self.visit_expr_mut(&mut y);
                                let hid = Ident::new(h, Span::call_site());
                                *e = Expr::Verbatim(quote!( #hid ( &mut #x , #n , #y ) ));
                                return;
                            }
                        }
                    }
                }
                let recv_is_u64 = match &*mc.receiver { Expr::Path(p) => p.path.get_ident().map(|i| self.fs.u64_names.contains(&i.to_string())).unwrap_or(false), _ => false };
                if mc.method == "to_le_bytes" && mc.args.is_empty() && recv_is_u64 {
                    self.bump("E16.to_le_bytes");
                    let mut x = (*mc.receiver).clone();
                    self.visit_expr_mut(&mut x);
                    *e = Expr::Verbatim(quote!( u64_to_le_bytes( #x ) ));
                    return;
                }
                // E15: X.iter().skip(K).all(CLOSURE)  ==>  iter_skip_all(X, K, CLOSURE)
                if mc.method == "all" && mc.args.len() == 1 {
                    let mut hit: Option<(Expr, Expr)> = None;
                    if let Expr::MethodCall(sk) = &*mc.receiver {
                        if sk.method == "skip" && sk.args.len() == 1 {
                            if let Expr::MethodCall(it) = &*sk.receiver {
                                if it.method == "iter" && it.args.is_empty() {
                                    hit = Some(((*it.receiver).clone(), sk.args[0].clone()));
                                }
                            }
                        }
                    }
                    if let Some((mut x, mut k)) = hit {
                        self.bump("E15.iter_skip_all");
                        self.visit_expr_mut(&mut x);
                        self.visit_expr_mut(&mut k);
                        let mut cl = mc.args[0].clone();
                        self.visit_expr_mut(&mut cl);
                        *e = Expr::Verbatim(quote!( iter_skip_all( #x , #k , #cl ) ));
                        return;
                    }
                }
                // E3: drop .as_ref() on byte-generic parameters
                if mc.method == "as_ref" && mc.args.is_empty() {
                    if let Expr::Path(rp) = &*mc.receiver {
                        if let Some(id) = rp.path.get_ident() {
                            if self.byte_params.contains(&id.to_string()) {
                                self.bump("E3.as_ref_dropped");
                                let r = (*mc.receiver).clone();
                                *e = r;
                                return;
                            }
                        }
                    }
                }
                // E3: an iterator-generic parameter is a Vec now
                if let Expr::Path(rp) = &*mc.receiver {
                    if let Some(id) = rp.path.get_ident() {
                        if self.iter_params.contains(&id.to_string()) && mc.method != "into_iter" {
                            self.bump("E3.into_iter");
                            let r = (*mc.receiver).clone();
                            mc.receiver = Box::new(Expr::Verbatim(quote!( #r .into_iter() )));
                        }
                    }
                }
                for a in mc.args.iter_mut() {
                    if let Some(c) = self.ctor_closure(a) {
                        *a = c;
                    }
                }
                if let Some(tf) = &mut mc.turbofish {
                    let mut pa = PathArguments::AngleBracketed(tf.clone());
                    self.filter_generic_args(&mut pa);
                    match pa {
                        PathArguments::AngleBracketed(ab) => *tf = ab,
                        _ => mc.turbofish = None,
                    }
                }
                visit_mut::visit_expr_mut(self, e);
            }
            Expr::Call(c) => {
                // E5: error payload text
                let fs = c.func.to_token_stream().to_string();
                if norm(&fs).starts_with("BlsError::") {
                    for a in c.args.iter_mut() {
                        if is_err_text_arg(a) {
                            self.bump("E5.err_text");
                            *a = parse_ex("err_text()");
                        }
                    }
                }
                visit_mut::visit_expr_mut(self, e);
                // E18: `Scalar::random(&mut g)` on a local generator is the prelude's `Scalar::random_mut(&mut g)`
                // (same call; the `&mut` form lets the contract state the generator's state after the draw)
                if let Expr::Call(c) = e {
                    let is_random = norm(&c.func.to_token_stream().to_string()) == "Scalar::random";
                    if is_random && c.args.len() == 1 {
                        if let Expr::Reference(r) = &c.args[0] {
                            if r.mutability.is_some() && matches!(&*r.expr, Expr::Path(_)) {
                                self.bump("E18.random_mut");
                                c.func = Box::new(parse_ex("Scalar::random_mut"));
                            }
                        }
                    }
                }
                // E3: iterator arguments are collected
                let mut bound: Option<(Ident, Expr)> = None;
                if let Expr::Call(c) = e {
                    if let Expr::Path(fp) = &*c.func {
                        if let Some(id) = fp.path.segments.last() {
                            let name = id.ident.to_string();
                            if name.contains("__") {
                                let idxs = self.callee_iter_params(&name);
                                for k in idxs {
                                    if let Some(a) = c.args.iter_mut().nth(k) {
                                        let is_plain = match &*a {
                                            Expr::Path(p) => p.path.get_ident().map(|i| self.iter_params.contains(&i.to_string())).unwrap_or(false),
                                            _ => false,
                                        };
                                        if !is_plain {
                                            self.bump("E3.collect");
                                            let inner = a.clone();
                                            if k == 0 {
                                                // E13: the collected first argument is bound to a fresh
                                                // local right before the call (same evaluation order)
                                                let nm = Ident::new(&format!("__c{}", self.collect_ctr), Span::call_site());
                                                self.collect_ctr += 1;
                                                bound = Some((nm.clone(), inner));
                                                *a = Expr::Verbatim(quote!( #nm ));
                                            } else {
                                                *a = Expr::Verbatim(quote!( #inner .collect::<Vec<_>>() ));
                                            }
                                        }
                                    }
                                }
                            }
                        }
                    }
                }
                if let Some((nm, inner)) = bound {
                    self.bump("E13.bind_collected");
                    let hs = self.hints_at(&format!("after-let {}", nm));
                    let call = e.clone();
                    *e = Expr::Verbatim(quote!( { let #nm = #inner .collect::<Vec<_>>(); #(#hs)* #call } ));
                }
            }
            Expr::Lit(ExprLit { lit: Lit::ByteStr(bs), .. }) => {
                // E4c: a byte-string literal b"..." becomes the reference to the array literal of its bytes
                let bytes = bs.value();
                self.bump("E4c.byte_string_literal");
                let list = bytes.iter().map(|b| format!("{}u8", b)).collect::<Vec<_>>().join(", ");
                *e = parse_ex(&format!("&[{}]", list));
            }
            Expr::Binary(b) => {
                self.visit_expr_mut(&mut b.left);
                self.visit_expr_mut(&mut b.right);
                let is_ref = |x: &Expr, rp: &BTreeSet<String>| match x {
                    Expr::Reference(_) => true,
                    Expr::Path(p) => p.path.get_ident().map(|i| rp.contains(&i.to_string())).unwrap_or(false),
                    _ => false,
                };
                let tr = match b.op {
                    BinOp::Add(_) => Some("Add::add"),
                    BinOp::Sub(_) => Some("Sub::sub"),
                    BinOp::Mul(_) => Some("Mul::mul"),
                    _ => None,
                };
                if let Some(t) = tr {
                    if is_ref(&b.left, &self.ref_params) || is_ref(&b.right, &self.ref_params) {
                        self.bump("E11.op_desugar");
                        let l = &b.left;
                        let r = &b.right;
                        let f: Expr = parse_ex(&format!("core::ops::{}", t));
                        *e = Expr::Verbatim(quote!( #f ( #l , #r ) ));
                    }
                }
            }
            Expr::ForLoop(_) | Expr::While(_) | Expr::Loop(_) => {
                self.rewrite_loop(e);
            }
            Expr::Closure(_) => {
                self.rewrite_closure(e);
            }
            Expr::Macro(m) => {
                let name = m.mac.path.segments.last().map(|s| s.ident.to_string()).unwrap_or_default();
                match name.as_str() {
                    "vec" | "matches" => {
                        // contents are token streams: rewrite paths inside by parsing as exprs where possible
                        if name == "vec" {
                            if let Ok(mut ex) = parse2::<VecRepeat>(m.mac.tokens.clone()) {
                                self.visit_expr_mut(&mut ex.elem);
                                self.visit_expr_mut(&mut ex.len);
                                let (a, b) = (&ex.elem, &ex.len);
                                m.mac.tokens = quote!( #a ; #b );
                            }
                        }
                    }
                    "format" => {}
                    _ => die(&format!("unsupported: macro `{}!` in {}", name, self.fs.key)),
                }
            }
            _ => visit_mut::visit_expr_mut(self, e),
        }
    }

    fn visit_block_mut(&mut self, b: &mut Block) {
        let old: Vec<Stmt> = std::mem::take(&mut b.stmts);
        let mut out: Vec<Stmt> = vec![];
        for mut s in old {
            // E4: a local byte-string const is replaced by its extracted accessor
            if let Stmt::Item(Item::Const(c)) = &s {
                if self.local_byte_consts.contains(&c.ident.to_string()) {
                    self.bump("E4.local_const_dropped");
                    continue;
                }
            }
            // E8: debug assertions
            if let Stmt::Macro(sm) = &s {
                let name = sm.mac.path.segments.last().map(|s| s.ident.to_string()).unwrap_or_default();
                if name == "debug_assert" || name == "debug_assert_eq" || name == "debug_assert_ne" {
                    self.bump("E8.debug_assert");
                    if !self.debug_view {
                        continue;
                    }
                    let cond: Expr = if name == "debug_assert" {
                        match parse2::<ExprList>(sm.mac.tokens.clone()) {
                            Ok(l) if !l.0.is_empty() => l.0[0].clone(),
                            _ => die(&format!("unsupported: debug_assert! arguments in {}", self.fs.key)),
                        }
                    } else {
                        match parse2::<ExprList>(sm.mac.tokens.clone()) {
                            Ok(l) if l.0.len() >= 2 => {
                                let (a, c) = (&l.0[0], &l.0[1]);
                                if name == "debug_assert_eq" { parse_quote!( #a == #c ) } else { parse_quote!( #a != #c ) }
                            }
                            _ => die(&format!("unsupported: debug_assert_eq! arguments in {}", self.fs.key)),
                        }
                    };
                    // a condition outside the Verus subset (iterator `all`/`any` with a closure) is
                    // replaced by an UNKNOWN boolean: the assertion then cannot be proved, and the
                    // driver reports it only when a witness panics on the real crate
                    let ctext = cond.to_token_stream().to_string();
                    let cond: Expr = if ctext.contains(". all (") || ctext.contains(". any (") || ctext.contains(".all(") || ctext.contains(".any(") {
                        self.bump("E8.debug_assert_unknown_condition");
                        parse_ex("debug_condition_unknown()")
                    } else {
                        cond
                    };
                    let mut st: Stmt = parse_quote!( if !( #cond ) { debug_assert_failed(); } );
                    self.visit_stmt_mut(&mut st);
                    out.push(st);
                    continue;
                }
            }
            // loops at statement level: hints around them
            let loop_ord = match &s {
                Stmt::Expr(Expr::ForLoop(_), _) | Stmt::Expr(Expr::While(_), _) | Stmt::Expr(Expr::Loop(_), _) => Some(self.loop_ctr),
                _ => None,
            };
            if let Some(k) = loop_ord {
                let hs = self.hints_at(&format!("before-loop {}", k));
                out.extend(hs);
            }
            let let_name: Option<String> = match &s {
                Stmt::Local(l) => match &l.pat {
                    Pat::Ident(pi) => Some(pi.ident.to_string()),
                    Pat::Type(pt) => match &*pt.pat { Pat::Ident(pi) => Some(pi.ident.to_string()), _ => None },
                    _ => None,
                },
                _ => None,
            };
            let method_name: Option<String> = match &s {
                Stmt::Expr(Expr::MethodCall(mc), Some(_)) => Some(mc.method.to_string()),
                _ => None,
            };
            self.visit_stmt_mut(&mut s);
            out.push(s);
            if let Some(m) = method_name {
                let hs = self.hints_at(&format!("after-method {}", m));
                out.extend(hs);
            }
            if let Some(n) = let_name {
                let hs = self.hints_at(&format!("after-let {}", n));
                out.extend(hs);
            }
            if let Some(k) = loop_ord {
                let hs = self.hints_at(&format!("after-loop {}", k));
                out.extend(hs);
            }
        }
        b.stmts = out;
    }

    fn visit_local_mut(&mut self, l: &mut Local) {
        // E12: type ascription from the contract file
        if let Pat::Ident(pi) = &l.pat {
            let name = pi.ident.to_string();
            if let Some((_, t)) = self.fs.annots.iter().find(|(n, _)| *n == name) {
                if !self.used_annots.contains(&name) {
                    self.used_annots.insert(name.clone());
                    self.bump("E12.let_type");
                    let ty = parse_ty(t);
                    let p = l.pat.clone();
                    l.pat = Pat::Type(PatType { attrs: vec![], pat: Box::new(p), colon_token: Default::default(), ty: Box::new(ty) });
                }
            }
        }
        visit_mut::visit_local_mut(self, l);
    }
}

struct VecRepeat {
    elem: Expr,
    len: Expr,
}
impl parse::Parse for VecRepeat {
    fn parse(input: parse::ParseStream) -> Result<Self> {
        let elem: Expr = input.parse()?;
        input.parse::<Token![;]>()?;
        let len: Expr = input.parse()?;
        Ok(VecRepeat { elem, len })
    }
}

struct ExprList(Vec<Expr>);
impl parse::Parse for ExprList {
    fn parse(input: parse::ParseStream) -> Result<Self> {
        let p = punctuated::Punctuated::<Expr, Token![,]>::parse_terminated(input)?;
        Ok(ExprList(p.into_iter().collect()))
    }
}

impl<'a> Rw<'a> {
    fn hints_at(&mut self, wh: &str) -> Vec<Stmt> {
        let mut v = vec![];
        let hints = self.fs.hints.clone();
        // `POSITION#n` addresses the n-th time this position is met (1-based), e.g. the second `let x`
        let n = { let c = self.hint_occ.entry(wh.to_string()).or_insert(0); *c += 1; *c };
        let nth = format!("{}#{}", wh, n);
        for (k, (w, tags, text)) in hints.iter().enumerate() {
            if (w == wh || *w == nth) && sel(tags, self.tags) {
                self.used_hints.insert(k);
                let id = self.splice(text.clone());
                v.push(Stmt::Expr(Expr::Verbatim(quote!( #id )), Some(Default::default())));
            }
        }
        v
    }

    fn inv_text(&self, k: usize) -> String {
        let mut s = String::new();
        if let Some(lp) = self.fs.loops.get(&k) {
            let invs: Vec<&Clause> = lp.invs.iter().filter(|c| sel(&c.tags, self.tags)).collect();
            if !invs.is_empty() {
                s.push_str("\n    invariant\n");
                for c in invs {
                    s.push_str(&format!("        {}, // [{}]\n", c.text.trim(), c.id));
                }
            }
            if let Some(d) = &lp.dec {
                s.push_str(&format!("    decreases {},\n", d));
            }
        }
        s
    }

    fn rewrite_loop(&mut self, e: &mut Expr) {
        let k = self.loop_ctr;
        self.loop_ctr += 1;
        let has_spec = self.fs.loops.contains_key(&k);
        if has_spec {
            self.used_loops.insert(k);
        }
        match e {
            Expr::ForLoop(fl) => {
                // E5: enumerate
                let mut pre: Option<Stmt> = None;
                let mut counter: Option<Ident> = None;
                if let Expr::MethodCall(mc) = &*fl.expr {
                    if mc.method == "enumerate" && mc.args.is_empty() {
                        if let Pat::Tuple(pt) = &*fl.pat {
                            if pt.elems.len() == 2 {
                                if let Pat::Ident(pi) = &pt.elems[0] {
                                    let iname = pi.ident.clone();
                                    let inner_pat = pt.elems[1].clone();
                                    let recv = (*mc.receiver).clone();
                                    // is the index used outside dropped error text?
                                    let mut body = fl.body.clone();
                                    let mut probe = ErrTextStripper {};
                                    probe.visit_block_mut(&mut body);
                                    let used = ident_used(body.to_token_stream(), &iname.to_string());
                                    self.bump("E5.enumerate");
                                    fl.pat = Box::new(inner_pat);
                                    fl.expr = Box::new(recv);
                                    if used {
                                        if body_has_continue(&fl.body) {
                                            die(&format!("unsupported: enumerate counter with `continue` in {}", self.fs.key));
                                        }
                                        pre = Some(parse_quote!( let mut #iname: usize = 0; ));
                                        counter = Some(iname);
                                    }
                                }
                            }
                        }
                    }
                }
                self.visit_pat_mut(&mut fl.pat);
                self.visit_expr_mut(&mut fl.expr);
                self.visit_block_mut(&mut fl.body);
                if let Some(c) = &counter {
                    fl.body.stmts.push(parse_quote!( #c += 1; ));
                }
                let hs = self.hints_at(&format!("loop-end {}", k));
                fl.body.stmts.extend(hs);
                let hs0 = self.hints_at(&format!("loop-start {}", k));
                for (j, h) in hs0.into_iter().enumerate() {
                    fl.body.stmts.insert(j, h);
                }
                let pat = &fl.pat;
                let ex = &fl.expr;
                let body = &fl.body;
                let label = &fl.label;
                let new: TokenStream = if has_spec {
                    let it = self.fs.loops[&k].iter.clone().unwrap_or_else(|| "it".to_string());
                    let a = self.splice(format!("{}:", it));
                    let invs = self.inv_text(k);
                    let b = self.splice(invs);
                    quote!( #label for #pat in #a #ex #b #body )
                } else {
                    quote!( #label for #pat in #ex #body )
                };
                let new = if let Some(p) = pre { quote!( { #p #new } ) } else { new };
                *e = Expr::Verbatim(new);
            }
            Expr::While(w) => {
                self.visit_expr_mut(&mut w.cond);
                self.visit_block_mut(&mut w.body);
                let hs = self.hints_at(&format!("loop-end {}", k));
                w.body.stmts.extend(hs);
                let cond = &w.cond;
                let body = &w.body;
                let label = &w.label;
                if has_spec {
                    let invs = self.inv_text(k);
                    let b = self.splice(invs);
                    *e = Expr::Verbatim(quote!( #label while #cond #b #body ));
                }
            }
            Expr::Loop(l) => {
                self.visit_block_mut(&mut l.body);
                let body = &l.body;
                let label = &l.label;
                if has_spec {
                    let invs = self.inv_text(k);
                    let b = self.splice(invs);
                    *e = Expr::Verbatim(quote!( #label loop #b #body ));
                }
            }
            _ => {}
        }
    }

    fn rewrite_closure(&mut self, e: &mut Expr) {
        let k = self.closure_ctr;
        self.closure_ctr += 1;
        let cl = match e {
            Expr::Closure(c) => c,
            _ => return,
        };
        let spec = self.fs.closures.get(&k).cloned();
        // visit the body first
        self.visit_expr_mut(&mut cl.body);
        // hints at the end of a block-bodied closure go before its tail expression
        let ch = self.hints_at(&format!("closure-end {}", k));
        if !ch.is_empty() {
            if let Expr::Block(eb) = &mut *cl.body {
                let tail = match eb.block.stmts.last() {
                    Some(Stmt::Expr(_, None)) => eb.block.stmts.pop(),
                    _ => None,
                };
                eb.block.stmts.extend(ch);
                if let Some(t) = tail {
                    eb.block.stmts.push(t);
                }
            } else {
                lost(format!("closure {} of {} has no block body for a hint", k, self.fs.key));
            }
        }
        for p in cl.inputs.iter_mut() {
            self.visit_pat_mut(p);
        }
        let spec = match spec {
            None => {
                // E7: `_` parameters are named (Verus rejects wildcard closure parameters)
                for (j, p) in cl.inputs.iter_mut().enumerate() {
                    if let Pat::Wild(_) = p {
                        let id = Ident::new(&format!("_w{}", j), Span::call_site());
                        *p = parse_quote!( #id );
                        self.bump("E7.wildcard_param");
                    }
                }
                return;
            }
            Some(s) => s,
        };
        self.used_closures.insert(k);
        self.bump("E7.closure");
        if spec.types.len() != cl.inputs.len() {
            lost(format!("closure {} of {} has {} parameters, contract gives {}", k, self.fs.key, cl.inputs.len(), spec.types.len()));
            return;
        }
        let mut params: Vec<TokenStream> = vec![];
        let mut lets: Vec<Stmt> = vec![];
        for (j, (p, t)) in cl.inputs.iter().zip(spec.types.iter()).enumerate() {
            let ty = parse_ty(t);
            let inner = match p {
                Pat::Type(pt) => (*pt.pat).clone(),
                other => other.clone(),
            };
            match &inner {
                Pat::Ident(pi) if pi.by_ref.is_none() && pi.subpat.is_none() => {
                    let id = &pi.ident;
                    params.push(quote!( #id : #ty ));
                }
                other => {
                    let id = Ident::new(&format!("p__{}", j), Span::call_site());
                    params.push(quote!( #id : #ty ));
                    lets.push(parse_quote!( let #other = #id; ));
                }
            }
        }
        let mut hdr = String::new();
        if let Some(r) = &spec.ret {
            hdr.push_str(&format!("-> ({})", r));
        }
        if !spec.reqs.is_empty() {
            hdr.push_str("\n    requires ");
            for r in &spec.reqs {
                hdr.push_str(&format!("{}, ", r));
            }
        }
        let enss: Vec<&String> = spec.enss.iter().filter(|(t, _)| sel(t, self.tags)).map(|(_, x)| x).collect();
        if !enss.is_empty() {
            hdr.push_str("\n    ensures ");
            for r in enss {
                hdr.push_str(&format!("{}, ", r));
            }
        }
        let h = self.splice(hdr);
        let body = &cl.body;
        let mv = &cl.capture;
        *e = Expr::Verbatim(quote!( #mv | #(#params),* | #h { #(#lets)* #body } ));
    }
}

fn body_has_continue(b: &Block) -> bool {
    struct F(bool);
    impl<'ast> syn::visit::Visit<'ast> for F {
        fn visit_expr_continue(&mut self, _: &'ast ExprContinue) {
            self.0 = true;
        }
    }
    let mut f = F(false);
    syn::visit::Visit::visit_block(&mut f, b);
    f.0
}

/// used only to decide whether an enumerate index survives E5
struct ErrTextStripper {}
impl VisitMut for ErrTextStripper {
    fn visit_expr_mut(&mut self, e: &mut Expr) {
        if let Expr::Call(c) = e {
            if norm(&c.func.to_token_stream().to_string()).starts_with("BlsError::") {
                for a in c.args.iter_mut() {
                    if is_err_text_arg(a) {
                        *a = parse_ex("err_text()");
                    }
                }
            }
        }
        visit_mut::visit_expr_mut(self, e);
    }
}

fn apply_patches(src: &FnSrc, fs: &FnSpec, stats: &mut BTreeMap<String, usize>) -> String {
    let mut text = src.text.clone();
    for (reason, from, to) in &fs.patches {
        let n = text.matches(from.as_str()).count();
        if n != 1 {
            lost(format!("patch `{}` ({}) matches {} times in {} ({}:{})", from, reason, n, fs.key, src.file, src.line));
            continue;
        }
        text = text.replacen(from.as_str(), to, 1);
        *stats.entry("E10.patch".to_string()).or_insert(0) += 1;
    }
    text
}

fn replace_splices(mut s: String, splices: &[String]) -> String {
    for (n, t) in splices.iter().enumerate().rev() {
        let key = format!("__VSPLICE_{}__", n);
        // a hint statement is printed as `__VSPLICE_n__;`
        s = s.replace(&format!("{};", key), t);
        s = s.replace(&key, t);
    }
    s
}

/// names a function binds, in source order: parameters, then every identifier bound by a `let`
/// (closure parameters and loop patterns are not included)
pub fn bound_names(text: &str) -> Option<(Vec<String>, Vec<String>, Vec<String>)> {
    let (sig, block) = parse_any_fn(text)?;
    let mut params = vec![];
    for inp in sig.inputs.iter() {
        if let FnArg::Typed(pt) = inp {
            let mut v = PatNames(vec![]);
            visit::Visit::visit_pat(&mut v, &pt.pat);
            params.extend(v.0);
        }
    }
    // every binding occurrence of the body in source order: `let`, `if let` / `while let`, match arms, `for`
    // patterns and closure parameters; for a `let` with an initialiser also its token text (the "shape")
    struct Binds(Vec<(String, String)>);
    impl<'ast> visit::Visit<'ast> for Binds {
        fn visit_local(&mut self, l: &'ast Local) {
            let mut v = PatNames(vec![]);
            visit::Visit::visit_pat(&mut v, &l.pat);
            let shape = l.init.as_ref().map(|i| i.expr.to_token_stream().to_string()).unwrap_or_default();
            let single = v.0.len() == 1;
            for n in v.0 { self.0.push((n, if single { shape.clone() } else { String::new() })); }
            if let Some(i) = &l.init { visit::Visit::visit_expr(self, &i.expr); if let Some((_, d)) = &i.diverge { visit::Visit::visit_expr(self, d); } }
        }
        fn visit_expr_let(&mut self, e: &'ast ExprLet) {
            let mut v = PatNames(vec![]);
            visit::Visit::visit_pat(&mut v, &e.pat);
            for n in v.0 { self.0.push((n, String::new())); }
            visit::Visit::visit_expr(self, &e.expr);
        }
        fn visit_arm(&mut self, a: &'ast Arm) {
            let mut v = PatNames(vec![]);
            visit::Visit::visit_pat(&mut v, &a.pat);
            for n in v.0 { self.0.push((n, String::new())); }
            if let Some((_, g)) = &a.guard { visit::Visit::visit_expr(self, g); }
            visit::Visit::visit_expr(self, &a.body);
        }
        fn visit_expr_for_loop(&mut self, f: &'ast ExprForLoop) {
            let mut v = PatNames(vec![]);
            visit::Visit::visit_pat(&mut v, &f.pat);
            for n in v.0 { self.0.push((n, String::new())); }
            visit::Visit::visit_expr(self, &f.expr);
            visit::Visit::visit_block(self, &f.body);
        }
        fn visit_expr_closure(&mut self, c: &'ast ExprClosure) {
            for p in c.inputs.iter() {
                let mut v = PatNames(vec![]);
                visit::Visit::visit_pat(&mut v, p);
                for n in v.0 { self.0.push((n, String::new())); }
            }
            visit::Visit::visit_expr(self, &c.body);
        }
    }
    let mut b = Binds(vec![]);
    if let Some(bl) = &block {
        visit::Visit::visit_block(&mut b, bl);
    }
    // shapes: the initialiser with every local / parameter name replaced by `_`
    let all: BTreeSet<String> = params.iter().cloned().chain(b.0.iter().map(|x| x.0.clone())).collect();
    let shape_of = |t: &str| -> String {
        let mut out = String::new();
        let cs: Vec<char> = t.chars().collect();
        let mut i = 0;
        while i < cs.len() {
            if cs[i].is_alphabetic() || cs[i] == '_' {
                let mut j = i;
                while j < cs.len() && (cs[j].is_alphanumeric() || cs[j] == '_') { j += 1; }
                let w: String = cs[i..j].iter().collect();
                let field = out.trim_end().ends_with('.');
                if all.contains(&w) && !field { out.push('_') } else { out.push_str(&w) }
                i = j;
            } else { if !cs[i].is_whitespace() { out.push(cs[i]); } i += 1; }
        }
        out
    };
    let lets: Vec<String> = b.0.iter().map(|x| x.0.clone()).collect();
    let shapes: Vec<String> = b.0.iter().map(|x| shape_of(&x.1)).collect();
    Some((params, lets, shapes))
}
/// number of loops and of closures in a function body (what the ordinals of `loop K` / `closure K` count)
pub fn count_loops_closures(text: &str) -> Option<(usize, usize)> {
    let (_, block) = parse_any_fn(text)?;
    struct Cnt(usize, usize);
    impl<'ast> visit::Visit<'ast> for Cnt {
        fn visit_expr_for_loop(&mut self, f: &'ast ExprForLoop) { self.0 += 1; visit::visit_expr_for_loop(self, f); }
        fn visit_expr_while(&mut self, f: &'ast ExprWhile) { self.0 += 1; visit::visit_expr_while(self, f); }
        fn visit_expr_loop(&mut self, f: &'ast ExprLoop) { self.0 += 1; visit::visit_expr_loop(self, f); }
        fn visit_expr_closure(&mut self, c: &'ast ExprClosure) { self.1 += 1; visit::visit_expr_closure(self, c); }
    }
    let mut c = Cnt(0, 0);
    if let Some(b) = &block { visit::Visit::visit_block(&mut c, b); }
    Some((c.0, c.1))
}
struct PatNames(Vec<String>);
impl<'ast> visit::Visit<'ast> for PatNames {
    fn visit_pat_ident(&mut self, p: &'ast PatIdent) {
        self.0.push(p.ident.to_string());
        visit::visit_pat_ident(self, p);
    }
}

/// E0: the contract of a function mentions its parameters and locals by name.  `contracts/pinned_names.json`
/// records, per function, the names it bound when the contract was written; if the current body binds
/// the same NUMBER of names in the same positions but some are spelled differently, those locals were
/// renamed: the annotations are carried over to the new names (whole-word substitution).  Any other
/// difference leaves the contract as written (and a missing name is then a lost anchor).
pub fn renamed_spec(fs: &FnSpec, text: &str, pinned: Option<&serde_json::Value>, stats: &mut BTreeMap<String, usize>) -> FnSpec {
    let pinned = match pinned { Some(p) => p, None => return fs.clone() };
    let (cp, cl, cs_) = match bound_names(text) { Some(x) => x, None => return fs.clone() };
    let get = |k: &str| -> Vec<String> { pinned.get(k).and_then(|v| v.as_array()).map(|a| a.iter().filter_map(|x| x.as_str().map(|s| s.to_string())).collect()).unwrap_or_default() };
    let (pp, pl, ps_) = (get("params"), get("lets"), get("shapes"));
    let lenient = LENIENT.load(std::sync::atomic::Ordering::Relaxed);
    // loops and closures are addressed by ordinal and need their own annotations: a body with another number of
    // them than the contract was written for has lost its proof structure (a NEW loop has no invariant, a new
    // closure no specification) — what then fails is undecided unless a witness replays
    if let (Some((nl, nc)), Some(pl_), Some(pc_)) = (count_loops_closures(text), pinned.get("n_loops").and_then(|v| v.as_u64()), pinned.get("n_closures").and_then(|v| v.as_u64())) {
        if nl as u64 != pl_ { lost(format!("{} has {} loop(s), its contract was written for {}", fs.key, nl, pl_)); }
        if nc as u64 != pc_ { lost(format!("{} has {} closure(s), its contract was written for {}", fs.key, nc, pc_)); }
    }
    let mut map: BTreeMap<String, String> = BTreeMap::new();
    let mut aligned = false;
    let mut consistent = true;
    let mut add = |o: &String, n: &String, map: &mut BTreeMap<String, String>| {
        if o != n {
            if let Some(prev) = map.get(o) { if prev != n { consistent = false; } }
            map.insert(o.clone(), n.clone());
        }
    };
    if pp.len() == cp.len() && pp.iter().zip(cp.iter()).all(|(o, n)| o == n || !pl.contains(n) && !pp.contains(n)) { for (o, n) in pp.iter().zip(cp.iter()) { add(o, n, &mut map); } }
    // equally many bindings: a renaming in place — unless a "new" name is one of the old names (then bindings
    // were moved or swapped, not renamed, and positions mean nothing)
    let old_names: BTreeSet<&String> = pp.iter().chain(pl.iter()).collect();
    let in_place = pl.len() == cl.len() && pl.iter().zip(cl.iter()).all(|(o, n)| o == n || !old_names.contains(n));
    if in_place {
        for (o, n) in pl.iter().zip(cl.iter()) { add(o, n, &mut map); }
    } else if lenient {
        // lets were added or removed as well: align the two name sequences on the names they share (longest
        // common subsequence); between two shared names, equally many old and new names are a renaming in order
        let (n, m) = (pl.len(), cl.len());
        let mut t = vec![vec![0usize; m + 1]; n + 1];
        for i in (0..n).rev() { for j in (0..m).rev() {
            t[i][j] = if pl[i] == cl[j] { t[i + 1][j + 1] + 1 } else { t[i + 1][j].max(t[i][j + 1]) };
        } }
        let (mut i, mut j) = (0usize, 0usize);
        let (mut gi, mut gj) = (0usize, 0usize);
        let mut gaps: Vec<(usize, usize, usize, usize)> = vec![];
        while i < n && j < m {
            if pl[i] == cl[j] { gaps.push((gi, i, gj, j)); i += 1; j += 1; gi = i; gj = j; }
            else if t[i + 1][j] >= t[i][j + 1] { i += 1 } else { j += 1 }
        }
        gaps.push((gi, n, gj, m));
        for (a, b, c, d) in gaps {
            if b - a == d - c { for k in 0..(b - a) { add(&pl[a + k], &cl[c + k], &mut map); } }
            else if ps_.len() == pl.len() {
                // unequal gap: pair the names whose initialisers have the same shape, in order
                let mut k2 = c;
                for k in a..b {
                    if ps_[k].is_empty() { continue; }
                    if let Some(hit) = (k2..d).find(|&x| cs_[x] == ps_[k]) { add(&pl[k], &cl[hit], &mut map); k2 = hit + 1; }
                }
            }
        }
        aligned = true;
    }
    if !consistent { return fs.clone(); }
    // a new name must not be an old name that is still in use under its old meaning
    let still: BTreeSet<&String> = pp.iter().chain(pl.iter()).filter(|o| !map.contains_key(*o)).collect();
    if map.values().any(|n| still.contains(n)) { return fs.clone(); }
    let words = |t: &str| -> Vec<(String, bool)> {
        let mut out = vec![];
        let cs: Vec<char> = t.chars().collect();
        let mut i = 0;
        while i < cs.len() {
            if cs[i].is_alphabetic() || cs[i] == '_' {
                let mut j = i;
                while j < cs.len() && (cs[j].is_alphanumeric() || cs[j] == '_') { j += 1; }
                out.push((cs[i..j].iter().collect(), i > 0 && cs[i - 1] == '.'));
                i = j;
            } else { i += 1; }
        }
        out
    };
    let sub = |t: &str| -> String {
        // whole-word, simultaneous substitution
        let mut out = String::new();
        let cs: Vec<char> = t.chars().collect();
        let mut i = 0;
        while i < cs.len() {
            if cs[i].is_alphabetic() || cs[i] == '_' {
                let mut j = i;
                while j < cs.len() && (cs[j].is_alphanumeric() || cs[j] == '_') { j += 1; }
                let w: String = cs[i..j].iter().collect();
                let field = i > 0 && cs[i - 1] == '.';
                match map.get(&w) { Some(n) if !field => out.push_str(n), _ => out.push_str(&w) }
                i = j;
            } else { out.push(cs[i]); i += 1; }
        }
        out
    };
    // names the contract was written against that the body no longer binds (after the renaming)
    let current: BTreeSet<&String> = cp.iter().chain(cl.iter()).collect();
    let gone: BTreeSet<String> = pp.iter().chain(pl.iter()).filter(|o| !map.contains_key(*o) && !current.contains(o)).cloned().collect();
    let mentions_gone = |t: &str| -> Option<String> { words(t).into_iter().find(|(w, field)| !field && gone.contains(w)).map(|(w, _)| w) };
    // a `let` whose initialiser was rewritten while a proof hint or an invariant speaks about that local: the
    // annotation may be stale (it was written against the old computation) — same treatment as a lost anchor
    if ps_.len() == pl.len() && cs_.len() == cl.len() {
        let ann: Vec<&String> = fs.hints.iter().flat_map(|(w, _, t)| vec![w, t]).chain(fs.loops.values().flat_map(|l| l.invs.iter().map(|c| &c.text))).collect();
        for (i, o) in pl.iter().enumerate() {
            if ps_[i].is_empty() { continue; }
            let n = map.get(o).cloned().unwrap_or_else(|| o.clone());
            // the current binding of that name with a recorded shape (first one that matches the name)
            // the k-th binding of that name then is the k-th binding of its (renamed) name now
            let k = pl[..i].iter().filter(|x| *x == o).count();
            let cur_shape = cl.iter().enumerate().filter(|(_, x)| **x == n).nth(k).map(|(j, _)| cs_[j].clone());
            if let Some(csh) = cur_shape {
                // compare shapes with the renaming applied to nothing: shapes already abstract from local names
                if csh != ps_[i] && ann.iter().any(|t| words(t).iter().any(|(w, f)| !f && w == o)) {
                    lost(format!("the initialiser of `{}` in {} was rewritten and proof annotations speak about it", n, fs.key));
                }
            }
        }
    }
    if map.is_empty() && gone.is_empty() { return fs.clone(); }
    if !map.is_empty() { *stats.entry(if aligned { "E0.renamed_local_aligned" } else { "E0.renamed_local" }.to_string()).or_insert(0) += map.len(); }
    if aligned && !map.is_empty() {
        lost(format!("locals of {} were added or removed and some renamed: the annotations follow the alignment {}", fs.key, map.iter().map(|(a, b)| format!("{}→{}", a, b)).collect::<Vec<_>>().join(", ")));
    }
    let mut f = fs.clone();
    for c in f.reqs.iter_mut().chain(f.enss.iter_mut()) { c.text = sub(&c.text); }
    for (_, lp) in f.loops.iter_mut() {
        for c in lp.invs.iter_mut() { c.text = sub(&c.text); }
        if let Some(d) = &lp.dec { lp.dec = Some(sub(d)); }
    }
    for (_, cl) in f.closures.iter_mut() {
        for r in cl.reqs.iter_mut() { *r = sub(r); }
        for (_, e) in cl.enss.iter_mut() { *e = sub(e); }
    }
    for (w, _, t) in f.hints.iter_mut() { *w = sub(w); *t = sub(t); }
    for (_, from, to) in f.patches.iter_mut() { *from = sub(from); *to = sub(to); }
    for (n, _) in f.annots.iter_mut() { *n = sub(n); }
    for n in f.u64_names.iter_mut() { *n = sub(n); }
    if !gone.is_empty() {
        // annotations that mention a local which is gone: a lost anchor (strict: stop; lenient: drop them)
        let mut dropped: Vec<String> = vec![];
        for (_, lp) in f.loops.iter_mut() {
            lp.invs.retain(|c| match mentions_gone(&c.text) { Some(w) => { dropped.push(format!("invariant {} (local `{}`)", c.id, w)); false } None => true });
        }
        f.hints.retain(|(w, _, t)| match mentions_gone(t).or_else(|| mentions_gone(w)) { Some(x) => { dropped.push(format!("hint at {} (local `{}`)", w, x)); false } None => true });
        f.annots.retain(|(n, _)| if gone.contains(n) { dropped.push(format!("type annotation of `{}`", n)); false } else { true });
        f.u64_names.retain(|n| !gone.contains(n));
        for d in dropped { lost(format!("{} of {}: the local is no longer bound in the function", d, fs.key)); }
    }
    f
}

pub fn emit_fn(idx: &Index, fs0: &FnSpec, tags: &[String], debug_view: bool, start_line: usize, stats: &mut BTreeMap<String, usize>) -> (String, serde_json::Value) {
    let src = idx.lookup_fn(&fs0.key, &fs0.file);
    let renamed = renamed_spec(fs0, &src.text, PINNED_NAMES.get().and_then(|m| m.get(&fs0.key)), stats);
    let fs = &renamed;
    let text = apply_patches(&src, fs, stats);
    let (mut sig, block) = parse_any_fn(&text).unwrap_or_else(|| die(&format!("cannot parse function {} after patches", fs.key)));
    let mut block = block.unwrap_or_else(|| die(&format!("function {} has no body", fs.key)));

    let (own_trait, self_name, self_subst, out_default) = match &src.owner {
        Owner::Free => (None, None, None, sig.ident.to_string()),
        Owner::TraitDefault(t) => (Some(t.clone()), None, None, format!("{}__{}", t, sig.ident)),
        Owner::Inherent(n) => (None, Some(n.clone()), None, sig.ident.to_string()),
        Owner::TraitImpl(_key, n, t) => {
            let st = src.impl_header.as_ref().map(|h| h.2.clone()).unwrap_or_else(|| n.clone());
            if t == "Default" || sig.receiver().is_some() {
                // E1: `impl Default for T` becomes the inherent associated function `T::default()`
                (None, Some(n.clone()), None, sig.ident.to_string())
            } else if (t == "From" || t == "TryFrom") && !fs.as_free {
                // kept as a real trait impl (Self stays valid)
                (None, Some(n.clone()), None, sig.ident.to_string())
            } else {
                (None, Some(n.clone()), Some(st), format!("{}__{}", n, sig.ident))
            }
        }
    };
    let conv_impl: Option<String> = match &src.owner {
        Owner::TraitImpl(_, _, t) if (t == "From" || t == "TryFrom") && !fs.as_free => Some(t.clone()),
        _ => None,
    };
    let mut byte_generics = byte_generics_of(&sig.generics, false);
    let mut u8_generics = byte_generics_of(&sig.generics, true);
    for (id, ty) in &fs.insts {
        if id.starts_with('R') && id.ends_with("__") {
            continue; // E3e generic instantiated below
        }
        if !sig.generics.type_params().any(|p| p.ident == id.as_str()) {
            die(&format!("lost anchor: type parameter `{}` of {} not found", id, fs.key));
        }
        u8_generics.remove(id);
        byte_generics.insert(id.clone(), ty.clone());
        *stats.entry("E3c.instantiated".to_string()).or_insert(0) += 1;
    }
    let iter_generics = iter_generics_of(&sig.generics);
    let mut rw = Rw {
        idx,
        fs,
        tags,
        debug_view,
        owner: src.owner.clone(),
        impl_idents: src.implementor_idents.clone(),
        own_trait,
        self_name: self_name.clone(),
        self_subst,
        byte_generics,
        iter_generics,
        dropped_generics: BTreeSet::new(),
        byte_params: BTreeSet::new(),
        iter_params: BTreeSet::new(),
        ref_params: BTreeSet::new(),
        splices: vec![],
        loop_ctr: 0,
        closure_ctr: 0,
        collect_ctr: 0,
        stats,
        used_loops: BTreeSet::new(),
        used_closures: BTreeSet::new(),
        hint_occ: BTreeMap::new(),
        used_hints: BTreeSet::new(),
        used_annots: BTreeSet::new(),
        local_byte_consts: BTreeSet::new(),
        src_file: String::new(),
    };
    rw.src_file = src.file.clone();
    for st in &block.stmts {
        if let Stmt::Item(Item::Const(c)) = st {
            let t = c.ty.to_token_stream().to_string();
            if t.contains("[u8]") && t.starts_with('&') {
                rw.local_byte_consts.insert(c.ident.to_string());
            }
        }
    }
    // implementor idents declared on the function itself (free helpers: `C: BlsSignatureImpl`)
    for p in sig.generics.type_params() {
        for b in &p.bounds {
            if let TypeParamBound::Trait(t) = b {
                if let Some(s) = t.path.segments.last() {
                    if idx.traits.contains_key(&s.ident.to_string()) && !rw.impl_idents.contains(&p.ident.to_string()) {
                        rw.impl_idents.push(p.ident.to_string());
                    }
                }
            }
        }
    }
    // parameters
    let mut params: Vec<String> = vec![];
    let mut rng_gens: Vec<String> = vec![];
    let mut rng_count = 0usize;
    let mut pre_lets: Vec<Stmt> = vec![];
    for inp in sig.inputs.iter_mut() {
        match inp {
            FnArg::Receiver(r) => {
                let mut rs = r.to_token_stream().to_string().replace("& self", "&self").replace("& mut self", "&mut self");
                // E1: `impl Trait for &'a T { fn m(self, ..) }` becomes the inherent method `T::m(&self, ..)`
                if let Owner::TraitImpl(..) = &src.owner {
                    if let Some(h) = &src.impl_header {
                        if h.2.trim_start().starts_with('&') && rs == "self" {
                            rs = "&self".to_string();
                            *rw.stats.entry("E1.ref_self_type".to_string()).or_insert(0) += 1;
                        }
                    }
                }
                params.push(rs);
            }
            FnArg::Typed(pt) => {
                // remember byte-generic parameters before the type is rewritten
                if let (Pat::Ident(pi), Type::Path(tp)) = (&*pt.pat, &*pt.ty) {
                    if let Some(id) = tp.path.get_ident() {
                        if rw.byte_generics.contains_key(&id.to_string()) {
                            rw.byte_params.insert(pi.ident.to_string());
                        }
                        if rw.iter_generics.contains_key(&id.to_string()) {
                            rw.iter_params.insert(pi.ident.to_string());
                        }
                    }
                }
                // E3e: an `impl RngCore + CryptoRng` parameter becomes a type parameter bounded by the
                // prelude trait RngArg (implemented for ChaCha20Rng and &mut ChaCha20Rng)
                if let Type::ImplTrait(it) = &*pt.ty {
                    let t = it.to_token_stream().to_string();
                    if t.contains("RngCore") || t.contains("CryptoRng") {
                        let gname = format!("R{}__", rng_count);
                        rng_count += 1;
                        if let Some((_, ty)) = fs.insts.iter().find(|(id, _)| *id == gname) {
                            // E3c on an E3e generic: the caller's generator type is fixed (map/collect
                            // specifications are lost inside generic functions)
                            *pt.ty = parse_ty(ty);
                            *rw.stats.entry("E3c.instantiated".to_string()).or_insert(0) += 1;
                        } else {
                            rng_gens.push(format!("{}: RngArg", gname));
                            *pt.ty = parse_ty(&gname);
                        }
                        *rw.stats.entry("E3e.rng_generic".to_string()).or_insert(0) += 1;
                    }
                }
                rw.visit_type_mut(&mut pt.ty);
                let tys = norm_ty(&pt.ty);
                match &*pt.pat {
                    Pat::Ident(pi) => {
                        if let Type::Reference(tr) = &*pt.ty {
                            let inner = norm_ty(&tr.elem);
                            if OPAQUE_COPY.contains(&inner.as_str()) && tr.mutability.is_none() {
                                rw.ref_params.insert(pi.ident.to_string());
                            }
                        }
                        let m = if pi.mutability.is_some() { "mut " } else { "" };
                        params.push(format!("{}{}: {}", m, pi.ident, tys));
                    }
                    Pat::Reference(pr) => {
                        // E7: `&other: &T`
                        if let Pat::Ident(pi) = &*pr.pat {
                            rw.bump("E7.param_pattern");
                            let pn = Ident::new(&format!("{}__p", pi.ident), Span::call_site());
                            let id = &pi.ident;
                            params.push(format!("{}: {}", pn, tys));
                            pre_lets.push(parse_quote!( let #id = * #pn; ));
                        } else {
                            die(&format!("unsupported: parameter pattern in {}", fs.key));
                        }
                    }
                    Pat::Wild(_) => {
                        params.push(format!("_p{}: {}", params.len(), tys));
                    }
                    _ => die(&format!("unsupported: parameter pattern in {}", fs.key)),
                }
            }
        }
    }
    let ret_ty: Option<String> = match &mut sig.output {
        ReturnType::Default => None,
        ReturnType::Type(_, t) => {
            rw.visit_type_mut(t);
            Some(norm_ty(t))
        }
    };
    // body
    if !fs.external {
        rw.visit_block_mut(&mut block);
        let start_h = rw.hints_at("start");
        let mut stmts = pre_lets;
        stmts.extend(start_h);
        stmts.extend(std::mem::take(&mut block.stmts));
        // hints at end go before a trailing expression
        let end_h = rw.hints_at("end");
        if !end_h.is_empty() {
            let tail = match stmts.last() {
                Some(Stmt::Expr(_, None)) => stmts.pop(),
                _ => None,
            };
            stmts.extend(end_h);
            if let Some(t) = tail {
                stmts.push(t);
            }
        }
        block.stmts = stmts;
        // every loop/closure/hint contract must have found its anchor
        for k in fs.loops.keys() {
            if !rw.used_loops.contains(k) {
                lost(format!("loop {} of {} not found", k, fs.key));
            }
        }
        for k in fs.closures.keys() {
            if !rw.used_closures.contains(k) {
                lost(format!("closure {} of {} not found", k, fs.key));
            }
        }
        for (n, _) in fs.annots.iter() {
            if !rw.used_annots.contains(n) {
                lost(format!("local `{}` of {} not found", n, fs.key));
            }
        }
        for (k, (w, tags, _)) in fs.hints.iter().enumerate() {
            if sel(tags, rw.tags) && !rw.used_hints.contains(&k) {
                lost(format!("hint position `{}` of {} not found", w, fs.key));
            }
        }
    }
    // generics kept: const generics only
    let mut gens: Vec<String> = vec![];
    for p in sig.generics.params.iter() {
        match p {
            GenericParam::Const(c) => gens.push(c.to_token_stream().to_string()),
            GenericParam::Type(t) => {
                let id = t.ident.to_string();
                if u8_generics.contains_key(&id) {
                    *rw.stats.entry("E3.asref_bytes_bound".to_string()).or_insert(0) += 1;
                    gens.push(format!("{}: AsRefBytes", id));
                } else if !(rw.byte_generics.contains_key(&id) || rw.iter_generics.contains_key(&id) || rw.impl_idents.contains(&id)) {
                    die(&format!("unsupported: type parameter `{}` of {}", id, fs.key));
                }
            }
            GenericParam::Lifetime(_) => {}
        }
    }
    gens.extend(rng_gens.iter().cloned());
    // E1: lifetimes of the impl header move to the flattened method
    if conv_impl.is_none() {
        if let (Owner::TraitImpl(..), Some(h)) = (&src.owner, &src.impl_header) {
            if sig.receiver().is_some() && !h.0.trim().is_empty() {
                let mut l: Vec<String> = h.0.split(',').map(|x| x.trim().to_string()).filter(|x| !x.is_empty()).collect();
                l.extend(gens.drain(..));
                gens = l;
            }
        }
    }
    let out_name = fs.out_name.clone().unwrap_or(out_default);
    let mut s = String::new();
    let mut clause_lines: Vec<serde_json::Value> = vec![];
    let default_impl: Option<String> = match &src.owner {
        Owner::TraitImpl(_, n, t) if t == "Default" || (sig.receiver().is_some() && !(t == "From" || t == "TryFrom")) => Some(n.clone()),
        _ => None,
    };
    let indent = if matches!(src.owner, Owner::Inherent(_)) || conv_impl.is_some() || default_impl.is_some() { 1 } else { 0 };
    let pad = "    ".repeat(indent);
    if let Owner::Inherent(n) = &src.owner {
        s.push_str(&format!("impl {} {{\n", n));
    }
    if let Some(n) = &default_impl {
        s.push_str(&format!("impl {} {{\n", n));
    }
    if let Some(t) = &conv_impl {
        let (lts, tp, st) = src.impl_header.clone().unwrap();
        let mut tpt = parse_ty(&tp);
        rw.visit_type_mut(&mut tpt);
        let mut stt = parse_ty(&st);
        rw.visit_type_mut(&mut stt);
        let tps = norm_ty(&tpt);
        let sts = norm_ty(&stt);
        // the conversion argument type
        let arg = tps[tps.find('<').map(|i| i + 1).unwrap_or(0)..tps.rfind('>').unwrap_or(tps.len())].trim().to_string();
        let l = if lts.is_empty() { String::new() } else { format!("<{}>", lts) };
        rw.bump("E1.conversion_impl");
        if t == "From" {
            s.push_str(&format!("impl{} vstd::std_specs::convert::FromSpecImpl<{}> for {} {{\n    open spec fn obeys_from_spec() -> bool {{ false }}\n    open spec fn from_spec(v: {}) -> Self {{ arbitrary() }}\n}}\n", l, arg, sts, arg));
            s.push_str(&format!("impl{} {} for {} {{\n", l, tps, sts));
        } else {
            let mut err = String::from("BlsError");
            for ((sn, tn), m) in idx.impl_types.iter() {
                if Some(sn) == self_name.as_ref() && tn == "TryFrom" {
                    if let Some(e) = m.get("Error") { err = e.clone(); }
                }
            }
            s.push_str(&format!("impl{} vstd::std_specs::convert::TryFromSpecImpl<{}> for {} {{\n    open spec fn obeys_try_from_spec() -> bool {{ false }}\n    open spec fn try_from_spec(v: {}) -> Result<Self, {}> {{ arbitrary() }}\n}}\n", l, arg, sts, arg, err));
            s.push_str(&format!("impl{} {} for {} {{\n    type Error = {};\n", l, tps, sts, err));
        }
    }
    s.push_str(&format!("{}// extracted from src/{}:{}-{} ({}){}\n", pad, src.file, src.line, src.end_line, fs.key,
        src.from_macro.as_ref().map(|m| format!(" via {}", m)).unwrap_or_default()));
    for a in &fs.attrs {
        s.push_str(&format!("{}#[{}]\n", pad, a));
    }
    // a loop body sees the facts established before the loop about variables it does not modify (so hoisting a
    // sub-expression out of a loop does not need a new invariant)
    if !fs.external && (src.text.contains("for ") || src.text.contains("while ") || src.text.contains("loop ")) && !fs.attrs.iter().any(|a| a.contains("loop_isolation")) {
        s.push_str(&format!("{}#[verifier::loop_isolation(false)]\n", pad));
    }
    if fs.external {
        s.push_str(&format!("{}#[verifier::external_body]\n", pad));
    }
    let g = if gens.is_empty() { String::new() } else { format!("<{}>", gens.join(", ")) };
    let rname = fs.ret.clone().unwrap_or_else(|| "res".to_string());
    let ret = match &ret_ty {
        Some(t) => format!(" -> ({}: {})", rname, t),
        None => String::new(),
    };
    let vis = if conv_impl.is_some() { "" } else { "pub " };
    s.push_str(&format!("{}{}fn {}{}({}){}\n", pad, vis, out_name, g, params.join(", "), ret));
    let cur_line = |s: &String| start_line + s.lines().count();
    if !fs.reqs.is_empty() {
        let reqs: Vec<&Clause> = fs.reqs.iter().filter(|c| sel(&c.tags, tags)).collect();
        if !reqs.is_empty() {
            s.push_str(&format!("{}    requires\n", pad));
            for c in reqs {
                let l0 = cur_line(&s);
                s.push_str(&format!("{}        {}, // [{}]\n", pad, c.text.trim(), c.id));
                clause_lines.push(serde_json::json!({"id": c.id, "kind": "requires", "from": l0, "to": cur_line(&s) - 1, "tags": c.tags}));
            }
        }
    }
    let enss: Vec<&Clause> = fs.enss.iter().filter(|c| sel(&c.tags, tags)).collect();
    if !enss.is_empty() {
        s.push_str(&format!("{}    ensures\n", pad));
        for c in &enss {
            let l0 = cur_line(&s);
            s.push_str(&format!("{}        {}, // [{}]\n", pad, c.text.trim(), c.id));
            clause_lines.push(serde_json::json!({"id": c.id, "kind": "ensures", "from": l0, "to": cur_line(&s) - 1, "tags": c.tags, "text": c.text}));
        }
    }
    if fs.no_unwind {
        s.push_str(&format!("{}    no_unwind\n", pad));
    }
    let body_start = cur_line(&s);
    if fs.external {
        s.push_str(&format!("{}{{ unimplemented!() }}\n", pad));
    } else {
        let body = print::print(block.to_token_stream(), indent);
        let body = replace_splices(body, &rw.splices);
        s.push_str(&pad);
        s.push_str(&body);
        s.push('\n');
    }
    if matches!(src.owner, Owner::Inherent(_)) || conv_impl.is_some() || default_impl.is_some() {
        s.push_str("}\n");
    }
    let end_line = start_line + s.lines().count() - 1;
    let n_inv: usize = fs.loops.values().map(|l| l.invs.iter().filter(|c| sel(&c.tags, tags)).count()).sum();
    let rec = serde_json::json!({
        "kind": "fn",
        "key": fs.key,
        "out_name": out_name,
        "owner": match &src.owner { Owner::Inherent(n) => n.clone(), _ => String::new() },
        "file": format!("src/{}", src.file),
        "line": src.line,
        "end_line": src.end_line,
        "gen_from": start_line,
        "gen_body_from": body_start,
        "gen_to": end_line,
        "clauses": clause_lines,
        "n_ensures": enss.len(),
        "n_invariants": n_inv,
        "external": fs.external,
        "patches": fs.patches.iter().map(|(r, f, t)| serde_json::json!({"reason": r, "from": f, "to": t})).collect::<Vec<_>>(),
        "from_macro": src.from_macro,
        "spec": format!("{}:{}", fs.spec_file, fs.spec_line),
        "lost_anchors": LOST.with(|l| l.borrow_mut().drain(..).collect::<Vec<String>>()),
    });
    let _ = &rw.owner;
    (s, rec)
}

pub fn emit_type(idx: &Index, ts: &TypeSpec, stats: &mut BTreeMap<String, usize>) -> String {
    let src = idx.types.get(&ts.name).unwrap_or_else(|| die(&format!("lost anchor: type `{}` not found", ts.name)));
    let fs = FnSpec { key: format!("type {}", ts.name), ..Default::default() };
    let tags: Vec<String> = vec![];
    let mut item: Item = parse_str(&src.text).unwrap_or_else(|e| die(&format!("parse type {}: {}", ts.name, e)));
    let generics = match &item {
        Item::Struct(s) => s.generics.clone(),
        Item::Enum(e) => e.generics.clone(),
        _ => die("type is neither struct nor enum"),
    };
    let mut impl_idents = vec![];
    for p in generics.type_params() {
        impl_idents.push(p.ident.to_string());
    }
    let mut rw = Rw {
        idx,
        fs: &fs,
        tags: &tags,
        debug_view: false,
        owner: Owner::Free,
        impl_idents,
        own_trait: None,
        self_name: Some(ts.name.clone()),
        self_subst: None,
        byte_generics: BTreeMap::new(),
        iter_generics: BTreeMap::new(),
        dropped_generics: BTreeSet::new(),
        byte_params: BTreeSet::new(),
        iter_params: BTreeSet::new(),
        ref_params: BTreeSet::new(),
        splices: vec![],
        loop_ctr: 0,
        closure_ctr: 0,
        collect_ctr: 0,
        stats,
        used_loops: BTreeSet::new(),
        used_closures: BTreeSet::new(),
        hint_occ: BTreeMap::new(),
        used_hints: BTreeSet::new(),
        used_annots: BTreeSet::new(),
        local_byte_consts: BTreeSet::new(),
        src_file: String::new(),
    };
    let mut out = String::new();
    out.push_str(&format!("// extracted from src/{}:{} (type {})\n", src.file, src.line, ts.name));
    if !ts.derives.is_empty() {
        out.push_str(&format!("#[derive({})]\n", ts.derives.join(", ")));
    }
    for a in &ts.attrs {
        out.push_str(&format!("#[{}]\n", a));
    }
    // the serde attributes decide which (de)serializer each field goes through — i.e. the wire format — and are
    // dropped from the verified text with the other attributes (E6); they are kept as one comment line after
    // the type so that the layout pin (C18) sees them
    let serde_of = |attrs: &Vec<Attribute>| -> Vec<String> {
        attrs.iter().filter(|a| a.path().is_ident("serde")).map(|a| a.to_token_stream().to_string().split_whitespace().collect::<Vec<_>>().join("")).collect()
    };
    let mut serde_notes: Vec<String> = vec![];
    match &item {
        Item::Struct(s) => {
            for a in serde_of(&s.attrs) { serde_notes.push(format!("container {}", a)); }
            for (i, f) in s.fields.iter().enumerate() {
                let n = f.ident.as_ref().map(|x| x.to_string()).unwrap_or_else(|| i.to_string());
                for a in serde_of(&f.attrs) { serde_notes.push(format!("{} {}", n, a)); }
            }
        }
        Item::Enum(e) => {
            for a in serde_of(&e.attrs) { serde_notes.push(format!("container {}", a)); }
            for v in e.variants.iter() {
                for a in serde_of(&v.attrs) { serde_notes.push(format!("{} {}", v.ident, a)); }
                for (i, f) in v.fields.iter().enumerate() {
                    let n = f.ident.as_ref().map(|x| x.to_string()).unwrap_or_else(|| i.to_string());
                    for a in serde_of(&f.attrs) { serde_notes.push(format!("{}.{} {}", v.ident, n, a)); }
                }
            }
        }
        _ => {}
    }
    match &mut item {
        Item::Struct(s) => {
            s.attrs.clear();
            s.generics = Generics::default();
            for f in s.fields.iter_mut() {
                f.attrs.clear();
                rw.visit_type_mut(&mut f.ty);
            }
            rw.bump("E6.attrs_dropped");
            out.push_str(&print::print(s.to_token_stream(), 0));
        }
        Item::Enum(e) => {
            e.attrs.clear();
            e.generics = Generics::default();
            for (pos, v) in e.variants.iter_mut().enumerate() {
                v.attrs.clear();
                // E6b: explicit discriminants equal to the implicit ones are dropped (the verus! macro
                // mis-handles them); any other value is unsupported
                if let Some((_, d)) = &v.discriminant {
                    let ds = d.to_token_stream().to_string();
                    if ds.trim_end_matches("u8").trim() == pos.to_string() {
                        v.discriminant = None;
                        rw.bump("E6b.implicit_discriminant");
                    } else {
                        die(&format!("unsupported: explicit discriminant `{}` of {}::{} differs from its position {}", ds, ts.name, v.ident, pos));
                    }
                }
                for f in v.fields.iter_mut() {
                    f.attrs.clear();
                    rw.visit_type_mut(&mut f.ty);
                }
            }
            rw.bump("E6.attrs_dropped");
            out.push_str(&print::print(e.to_token_stream(), 0));
        }
        _ => {}
    }
    out.push('\n');
    if !serde_notes.is_empty() {
        // placed on the line after the "extracted from" header
        let nl = out.find('\n').unwrap_or(0);
        out.insert_str(nl + 1, &format!("// serde attributes (dropped by E6, pinned by C18): {}\n", serde_notes.join(" ; ")));
    }
    out
}

/// E4: `const NAME: &[u8] = b"...";` becomes a spec function plus an accessor.
pub fn emit_const(idx: &Index, cs: &ConstSpec, stats: &mut BTreeMap<String, usize>) -> String {
    // owner forms:  None -> free const;  "Trait@Impl" -> impl const; "fn:Trait::method" -> const inside a fn body
    let (text, file, line, outname) = match &cs.owner {
        None => {
            let v = idx.consts.get(&cs.name).unwrap_or_else(|| die(&format!("lost anchor: const `{}` not found", cs.name)));
            if v.len() != 1 {
                die(&format!("lost anchor: const `{}` matches {} definitions; qualify it as file.rs::NAME", cs.name, v.len()));
            }
            (v[0].text.clone(), v[0].file.clone(), v[0].line, cs.name.clone())
        }
        Some(o) if o.ends_with(".rs") => {
            let v = idx.consts.get(&cs.name).unwrap_or_else(|| die(&format!("lost anchor: const `{}` not found", cs.name)));
            let c: Vec<_> = v.iter().filter(|c| c.file == *o).collect();
            if c.len() != 1 {
                die(&format!("lost anchor: const `{}` in {} matches {} definitions", cs.name, o, c.len()));
            }
            let stem = o.rsplit('/').next().unwrap().trim_end_matches(".rs");
            (c[0].text.clone(), c[0].file.clone(), c[0].line, format!("{}__{}", stem, cs.name))
        }
        Some(o) if o.starts_with("fn:") => {
            let key = &o[3..];
            let f = idx.lookup_fn(key, "");
            // find `const NAME : ... = ... ;` inside the text
            let (_, block) = parse_any_fn(&f.text).unwrap_or_else(|| die("cannot parse fn for const"));
            let mut found = None;
            if let Some(b) = block {
                for st in &b.stmts {
                    if let Stmt::Item(Item::Const(c)) = st {
                        if c.ident == cs.name.as_str() {
                            found = Some(c.to_token_stream().to_string());
                        }
                    }
                }
            }
            let t = found.unwrap_or_else(|| die(&format!("lost anchor: const `{}` not found inside {}", cs.name, key)));
            (t, f.file.clone(), f.line, format!("{}__{}", key.replace("::", "__"), cs.name))
        }
        Some(o) => {
            // "Impl|Trait"
            let k = format!("{}::{}", o, cs.name);
            let v = idx.consts.get(&k).unwrap_or_else(|| die(&format!("lost anchor: const `{}` not found", k)));
            let (imp, tr) = o.split_once('|').unwrap_or((o.as_str(), ""));
            (v[0].text.clone(), v[0].file.clone(), v[0].line, format!("{}__{}__{}", imp, tr, cs.name))
        }
    };
    // plain integer constants are copied as they are
    if let Ok(ic) = parse_str::<ItemConst>(&text) {
        if let Expr::Lit(ExprLit { lit: Lit::Int(_), .. }) = &*ic.expr {
            let ty = ic.ty.to_token_stream().to_string();
            let val = ic.expr.to_token_stream().to_string();
            *stats.entry("E4.int_const".to_string()).or_insert(0) += 1;
            return format!("// extracted from src/{}:{} (const {})\npub const {}: {} = {};\n", file, line, cs.name, cs.name, ty, val);
        }
    }
    // parse out the literal
    let lit_bytes = extract_bytes(&text).unwrap_or_else(|| die(&format!("unsupported: const `{}` is not a byte-string/array literal: {}", cs.name, text)));
    *stats.entry("E4.const".to_string()).or_insert(0) += 1;
    let list = lit_bytes.iter().map(|b| format!("{}u8", b)).collect::<Vec<_>>().join(", ");
    let is_array = !text.contains("& [u8]") && !text.contains("&[u8]") && !text.contains("&'static [u8]") && !text.contains("& 'static [u8]");
    let mut s = String::new();
    s.push_str(&format!("// extracted from src/{}:{} (const {}); literal: {}\n", file, line, cs.name, printable(&lit_bytes)));
    s.push_str(&format!("pub open spec fn {}_spec() -> Seq<u8> {{ seq![{}] }}\n", outname, list));
    if is_array {
        s.push_str(&format!("#[verifier::external_body]\npub fn {}() -> (r: [u8; {}]) ensures r@ == {}_spec() {{ unimplemented!() }}\n", outname, lit_bytes.len(), outname));
    } else {
        s.push_str(&format!("#[verifier::external_body]\npub fn {}() -> (r: &'static [u8]) ensures r@ == {}_spec() {{ unimplemented!() }}\n", outname, outname));
    }
    s
}

fn printable(b: &[u8]) -> String {
    b.iter().map(|c| if c.is_ascii_graphic() || *c == b' ' { (*c as char).to_string() } else { format!("\\x{:02x}", c) }).collect()
}

fn extract_bytes(text: &str) -> Option<Vec<u8>> {
    let ts: TokenStream = text.parse().ok()?;
    let tts: Vec<proc_macro2::TokenTree> = ts.into_iter().collect();
    // find '=' then the value
    let mut i = 0;
    while i < tts.len() {
        if let proc_macro2::TokenTree::Punct(p) = &tts[i] {
            if p.as_char() == '=' {
                break;
            }
        }
        i += 1;
    }
    let val = tts.get(i + 1)?;
    match val {
        proc_macro2::TokenTree::Literal(l) => {
            let lit: Lit = parse_str(&l.to_string()).ok()?;
            if let Lit::ByteStr(b) = lit {
                return Some(b.value());
            }
            None
        }
        proc_macro2::TokenTree::Group(g) => {
            // [0u8, 48u8]
            let mut v = vec![];
            for t in g.stream() {
                if let proc_macro2::TokenTree::Literal(l) = t {
                    let lit: Lit = parse_str(&l.to_string()).ok()?;
                    if let Lit::Int(n) = lit {
                        v.push(n.base10_parse::<u8>().ok()?);
                    }
                }
            }
            Some(v)
        }
        _ => None,
    }
}

//! Minimal token printer: one statement per line, brace-indented.  Layout only; every token of
//! the transformed AST is printed, in order.

use proc_macro2::{Delimiter, Spacing, TokenStream, TokenTree};

pub fn print(ts: TokenStream, indent: usize) -> String {
    let mut out = String::new();
    pr(ts, indent, &mut out, true);
    out
}

fn newline(out: &mut String, indent: usize) {
    while out.ends_with(' ') {
        out.pop();
    }
    out.push('\n');
    for _ in 0..indent {
        out.push_str("    ");
    }
}

fn no_space_before(c: char) -> bool {
    matches!(c, ',' | ';' | '.' | '?' | ':')
}

fn pr(ts: TokenStream, indent: usize, out: &mut String, brace_level: bool) {
    let tts: Vec<TokenTree> = ts.into_iter().collect();
    let mut prev_joint = false;
    let mut prev_nospace_after = true;
    for (i, t) in tts.iter().enumerate() {
        match t {
            TokenTree::Group(g) => {
                let (o, c) = match g.delimiter() {
                    Delimiter::Parenthesis => ("(", ")"),
                    Delimiter::Bracket => ("[", "]"),
                    Delimiter::Brace => ("{", "}"),
                    Delimiter::None => ("", ""),
                };
                if g.delimiter() == Delimiter::Brace {
                    if !out.ends_with(' ') && !out.ends_with('\n') && !out.is_empty() {
                        out.push(' ');
                    }
                    out.push_str(o);
                    if g.stream().is_empty() {
                        out.push_str(c);
                    } else {
                        newline(out, indent + 1);
                        pr(g.stream(), indent + 1, out, true);
                        newline(out, indent);
                        out.push_str(c);
                    }
                    // after a closing brace at brace level: newline unless followed by else , ; . ) ?
                    let next_is_cont = match tts.get(i + 1) {
                        Some(TokenTree::Ident(id)) => id == "else",
                        Some(TokenTree::Punct(p)) => matches!(p.as_char(), ',' | ';' | '.' | '?' | ')'),
                        None => true,
                        _ => false,
                    };
                    if brace_level && !next_is_cont {
                        newline(out, indent);
                        prev_nospace_after = true;
                    } else {
                        prev_nospace_after = false;
                    }
                } else {
                    // no space between ident and ( / [  ; space otherwise
                    let attach = matches!(tts.get(i.wrapping_sub(1)), Some(TokenTree::Ident(_)) | Some(TokenTree::Group(_))) && i > 0;
                    let after_bang = matches!(tts.get(i.wrapping_sub(1)), Some(TokenTree::Punct(p)) if p.as_char() == '!' ) && i > 0;
                    if !(attach || after_bang || prev_nospace_after || prev_joint) {
                        out.push(' ');
                    }
                    out.push_str(o);
                    pr(g.stream(), indent, out, false);
                    while out.ends_with(' ') {
                        out.pop();
                    }
                    out.push_str(c);
                    prev_nospace_after = false;
                }
                prev_joint = false;
            }
            TokenTree::Punct(p) => {
                let ch = p.as_char();
                if !(prev_joint || prev_nospace_after || no_space_before(ch)) {
                    out.push(' ');
                }
                if no_space_before(ch) {
                    while out.ends_with(' ') {
                        out.pop();
                    }
                }
                out.push(ch);
                prev_joint = p.spacing() == Spacing::Joint;
                prev_nospace_after = matches!(ch, '.' ) || (ch == ':' && prev_is_colon(out));
                if ch == ';' && brace_level {
                    newline(out, indent);
                    prev_nospace_after = true;
                } else if ch == ',' && brace_level {
                    newline(out, indent);
                    prev_nospace_after = true;
                }
            }
            TokenTree::Ident(id) => {
                if !(prev_joint || prev_nospace_after) {
                    out.push(' ');
                }
                out.push_str(&id.to_string());
                prev_joint = false;
                prev_nospace_after = false;
            }
            TokenTree::Literal(l) => {
                if !(prev_joint || prev_nospace_after) {
                    out.push(' ');
                }
                out.push_str(&l.to_string());
                prev_joint = false;
                prev_nospace_after = false;
            }
        }
    }
}

fn prev_is_colon(out: &str) -> bool {
    out.ends_with("::")
}

//! candidate generators and runners, one group per property
use crate::guarded;
use blsful::inner_types::*;
use blsful::*;
use serde_json::{json, Value};

type G1 = Bls12381G1Impl;
type G2 = Bls12381G2Impl;

fn schemes() -> Vec<SignatureSchemes> {
    vec![SignatureSchemes::Basic, SignatureSchemes::MessageAugmentation, SignatureSchemes::ProofOfPossession]
}
fn scheme_of(v: &Value) -> SignatureSchemes {
    match v.as_str().unwrap_or("") { "Basic" => SignatureSchemes::Basic, "MessageAugmentation" => SignatureSchemes::MessageAugmentation, _ => SignatureSchemes::ProofOfPossession }
}
fn scheme_name(s: SignatureSchemes) -> &'static str {
    match s { SignatureSchemes::Basic => "Basic", SignatureSchemes::MessageAugmentation => "MessageAugmentation", SignatureSchemes::ProofOfPossession => "ProofOfPossession" }
}
fn msgs() -> Vec<Vec<u8>> {
    let mut v: Vec<Vec<u8>> = vec![vec![], vec![0], vec![0x80], b"test".to_vec()];
    for l in [31usize, 32, 33, 127, 128, 129, 255, 256, 257, 4096, 65_536, 70_001] { v.push((0..l).map(|i| (i * 7 + 3) as u8).collect()); }
    v
}
fn keys_g1() -> Vec<SecretKey<G1>> {
    let mut v = vec![SecretKey::<G1>(Scalar::ONE), SecretKey::<G1>(Scalar::ONE + Scalar::ONE), SecretKey::<G1>(-Scalar::ONE)];
    v.push(SecretKey::<G1>::from_hash(b"witness key 1"));
    v.push(SecretKey::<G1>::from_hash(b"witness key 2"));
    v
}
fn keys_g2() -> Vec<SecretKey<G2>> {
    let mut v = vec![SecretKey::<G2>(Scalar::ONE), SecretKey::<G2>(Scalar::ONE + Scalar::ONE), SecretKey::<G2>(-Scalar::ONE)];
    v.push(SecretKey::<G2>::from_hash(b"witness key 1"));
    v.push(SecretKey::<G2>::from_hash(b"witness key 2"));
    v
}

pub fn candidates(prop: &str) -> Vec<Value> {
    let mut v = vec![];
    match prop {
        "C01" => {
            for g in ["G1", "G2"] { for k in 0..5 { for (mi, _) in msgs().iter().enumerate() { for s in schemes() {
                v.push(json!({"call": "sign_then_verify", "group": g, "key": k, "msg": mi, "scheme": scheme_name(s)}));
            }}}}
        }
        "C02" => {
            for g in ["G1", "G2"] { for s in schemes() { for kind in ["honest_edge_msgs", "neg_sig", "sig_plus_g", "double_sig", "other_msg", "truncated_msg", "other_key", "pk_plus_g", "neg_pk", "relabel", "identity_both", "sum_valid", "ietf_reference"] {
                v.push(json!({"call": "perturbed_verify", "group": g, "scheme": scheme_name(s), "kind": kind}));
            }}}
        }
        "C04" => {
            for g in ["G1", "G2"] { for s in schemes() { for kind in ["id_pk", "id_sig", "id_both", "zero_sign", "zero_pop", "id_pop", "id_pop_pk", "agg_id_pk_first", "agg_id_pk_last", "agg_id_sig", "multi_id_key", "zero_from_bytes", "pok_id_commitment", "pok_id_response", "pok_id_key", "pok_zero_challenge"] {
                v.push(json!({"call": "identity_inputs", "group": g, "scheme": scheme_name(s), "kind": kind}));
            }}}
        }
        "C09" => {
            for g in ["G1", "G2"] { for k in 0..5 { for kind in ["own", "other_key", "neg", "plus_g"] {
                v.push(json!({"call": "pop", "group": g, "key": k, "kind": kind}));
            }}}
            for g in ["G1", "G2"] { v.push(json!({"call": "pop_low_order", "group": g})); }
        }
        "C05" => {
            for g in ["G1", "G2"] { for k in 0..5 { for kind in ["pop_as_signature", "signature_as_pop", "pops_as_aggregate", "relabel_all", "multi_relabel", "pok_relabel", "pok_ts_relabel", "ciphertext_relabel"] {
                v.push(json!({"call": "domain_sep", "group": g, "key": k, "kind": kind}));
            }}}
        }
        "C06" => {
            for g in ["G1", "G2"] { for s in schemes() { for n in [2usize, 3, 5] { for kind in ["honest", "permuted", "dup_msg", "dup_pair", "add_pair", "drop_last", "alter_first_msg", "alter_last_key", "swap_msgs", "single", "mixed"] {
                v.push(json!({"call": "aggregate", "group": g, "scheme": scheme_name(s), "n": n, "kind": kind}));
            }}}}
        }
        "C03" => {
            // the draft's AggregateVerify: repeated (key, message) pairs are paired as often as they occur
            for g in ["G1", "G2"] { for s in schemes() { for n in [2usize, 3] { for kind in ["honest", "dup_pair", "dup_msg"] {
                v.push(json!({"call": "aggregate", "group": g, "scheme": scheme_name(s), "n": n, "kind": kind}));
            }}}}
        }
        "C07" => {
            for g in ["G1", "G2"] { for s in schemes() { for n in [2usize, 3, 5] { for kind in ["honest", "missing_signer", "extra_signer", "other_msg", "sum_check", "repeated_signer", "single", "mixed_first", "mixed_later", "aug_first", "aug_later"] {
                v.push(json!({"call": "multi", "group": g, "scheme": scheme_name(s), "n": n, "kind": kind}));
            }}}}
        }
        "C17" => {
            for kind in ["empty_v"] {
                v.push(json!({"call": "signcrypt", "group": "G1", "scheme": "Basic", "kind": kind}));
            }
            for kind in ["sk_be_0x80", "sk_le_0x80", "sk_try_from_0x80", "ske_empty", "ske_be_empty", "ske_le_empty", "ts_future", "ts_max"] {
                v.push(json!({"call": "no_panic", "group": "G1", "kind": kind}));
                v.push(json!({"call": "no_panic", "group": "G2", "kind": kind}));
            }
        }
        "C15" | "C16" => {
            for g in ["G1", "G2"] { for k in 0..5 { for kind in ["sk_bytes", "ske_vec", "ske_be", "ske_le", "pk_bytes", "zero_import"] {
                v.push(json!({"call": "codec", "group": g, "key": k, "kind": kind}));
            }}}
        }
        "C11" => {
            for g in ["G1", "G2"] { for s in schemes() { for kind in ["round_trip", "flip_v", "truncate_v", "extend_v", "tamper_u", "tamper_w", "relabel", "wrong_key", "both_identity", "u_identity", "w_identity"] {
                v.push(json!({"call": "signcrypt", "group": g, "scheme": scheme_name(s), "kind": kind}));
            }}}
        }
        "C13" => {
            for g in ["G1", "G2"] { for s in schemes() { for kind in ["round_trip", "wrong_id", "wrong_key", "wrong_scheme", "identity_sig", "flip_u", "flip_v", "flip_w_prefix", "flip_w_prefix_all_bits", "flip_padding", "extend_padding", "empty_w", "threshold_quorums"] {
                v.push(json!({"call": "timelock", "group": g, "scheme": scheme_name(s), "kind": kind}));
            }}}
        }
        "C12" => {
            for g in ["G1", "G2"] { for s in schemes() { for kind in ["share_verifies", "other_participant", "other_ciphertext", "t_shares_decrypt", "key_from_shares"] {
                v.push(json!({"call": "thr_signcrypt", "group": g, "scheme": scheme_name(s), "kind": kind}));
            }}}
        }
        "C14" => {
            for g in ["G1", "G2"] { for kind in ["decrypt", "homomorphic", "homomorphic_ops", "homomorphic_k16", "key_from_shares", "proof_ok", "tamper_c1", "tamper_c2", "tamper_mp", "tamper_bp", "tamper_ch", "wrong_pk", "wrong_sk", "identity_pk"] {
                v.push(json!({"call": "elgamal", "group": g, "kind": kind}));
            }}
        }
        "C08" => {
            for g in ["G1", "G2"] { for s in [SignatureSchemes::Basic, SignatureSchemes::ProofOfPossession] { for (t, n) in [(2usize, 2usize), (2, 3), (3, 5), (4, 5), (5, 7)] { for kind in ["recombine", "partial_verify", "other_share", "too_few", "duplicate", "duplicate_any", "zero_id", "single", "empty", "mixed", "subsets", "bad_params"] {
                v.push(json!({"call": "shares", "group": g, "scheme": scheme_name(s), "t": t, "n": n, "kind": kind}));
            }}}}
            // large participant sets (the property's range is n <= 255)
            for g in ["G1", "G2"] { for s in [SignatureSchemes::Basic, SignatureSchemes::ProofOfPossession] { for (t, n) in [(3usize, 40usize), (33, 36), (2, 255)] {
                v.push(json!({"call": "shares", "group": g, "scheme": scheme_name(s), "t": t, "n": n, "kind": "recombine"}));
            }}}
        }
        "C10" => {
            for g in ["G1", "G2"] { for s in schemes() { for kind in ["complete", "other_challenge", "other_msg", "other_key", "tamper_u", "tamper_v", "forged_id_response", "ts_no_timeout", "ts_within", "ts_huge_timeout", "ts_elapsed", "ts_altered", "ts_future", "ts_max", "ts_future_consistent"] {
                v.push(json!({"call": "pok", "group": g, "scheme": scheme_name(s), "kind": kind}));
            }}}
        }
        _ => {}
    }
    v
}

macro_rules! by_group {
    ($c:expr, $f:ident) => {
        if $c["group"] == "G1" { $f::<G1>($c, &keys_g1()) } else { $f::<G2>($c, &keys_g2()) }
    };
}

/// returns Some(description of the observed violation) or None when the candidate behaves correctly
pub fn run(c: &Value) -> Option<String> {
    let r = guarded(|| match c["call"].as_str().unwrap_or("") {
        "sign_then_verify" => by_group!(c, sign_then_verify),
        "perturbed_verify" => by_group!(c, perturbed_verify),
        "identity_inputs" => by_group!(c, identity_inputs),
        "pop" => by_group!(c, pop),
        "pop_low_order" => if c["group"] == "G1" { pop_low_order_g1() } else { pop_low_order_g2() },
        "domain_sep" => by_group!(c, domain_sep),
        "aggregate" => by_group!(c, aggregate),
        "multi" => by_group!(c, multi),
        "pok" => by_group!(c, pok),
        "shares" => by_group!(c, shares),
        "elgamal" => by_group!(c, elgamal),
        "thr_signcrypt" => by_group!(c, thr_signcrypt),
        "timelock" => by_group!(c, timelock),
        "signcrypt" => by_group!(c, signcrypt),
        "codec" => by_group!(c, codec),
        "no_panic" => by_group!(c, no_panic),
        _ => None,
    });
    match r { Ok(o) => o, Err(p) => Some(format!("panicked: {}", p)) }
}

fn sign_then_verify<C: BlsSignatureImpl + PartialEq>(c: &Value, keys: &[SecretKey<C>]) -> Option<String> {
    let sk = &keys[c["key"].as_u64().unwrap() as usize];
    let m = &msgs()[c["msg"].as_u64().unwrap() as usize];
    let s = scheme_of(&c["scheme"]);
    let sig = match sk.sign(s, m) { Ok(x) => x, Err(e) => return Some(format!("sign failed: {}", e)) };
    let sig2 = sk.sign(s, m).unwrap();
    if sig != sig2 { return Some("signing is not deterministic".into()); }
    let pk = sk.public_key();
    if let Err(e) = sig.verify(&pk, m) { return Some(format!("honest signature rejected: {}", e)); }
    // through the byte encodings
    let skb: Vec<u8> = Vec::from(sk);
    let sk2 = match SecretKey::<C>::try_from(skb.as_slice()) { Ok(k) => k, Err(e) => return Some(format!("the key's own byte encoding is refused on import: {}", e)) };
    let pkb: Vec<u8> = Vec::from(&pk);
    let pk2 = match PublicKey::<C>::try_from(pkb.as_slice()) { Ok(x) => x, Err(e) => return Some(format!("public key bytes rejected: {}", e)) };
    let sgb: Vec<u8> = Vec::from(&sig);
    let sig3 = match Signature::<C>::try_from(sgb.as_slice()) { Ok(x) => x, Err(e) => return Some(format!("signature bytes rejected: {}", e)) };
    if sk2.sign(s, m).ok()? != sig { return Some("re-imported key signs differently".into()); }
    // ... and through every byte form of the curve-tagged wrapper
    let tag: u8 = if c["group"] == "G1" { 1 } else { 2 };
    let mut tagged = vec![tag]; tagged.extend_from_slice(&sk.to_be_bytes());
    let e = match Option::<SecretKeyEnum>::from(SecretKeyEnum::from_be_bytes(&tagged)) { Some(e) => e, None => return Some("SecretKeyEnum refuses the key's tagged big-endian bytes".into()) };
    let le = e.to_le_bytes();
    let e2 = match Option::<SecretKeyEnum>::from(SecretKeyEnum::from_le_bytes(&le)) { Some(e) => e, None => return Some("SecretKeyEnum refuses its own little-endian bytes".into()) };
    let e3 = match SecretKeyEnum::try_from(Vec::<u8>::from(&e).as_slice()) { Ok(e) => e, Err(x) => return Some(format!("SecretKeyEnum refuses its own bytes: {}", x)) };
    for (route, x) in [("little-endian", e2), ("Vec<u8>", e3)] {
        let back = x.to_be_bytes();
        if back != tagged { return Some(format!("a key carried through the {} form of SecretKeyEnum comes back as another key or curve", route)); }
    }
    if let Err(e) = sig3.verify(&pk2, m) { return Some(format!("re-imported signature/public key rejected: {}", e)); }
    None
}

fn sig_pt<C: BlsSignatureImpl + PartialEq>(s: &Signature<C>) -> <C as Pairing>::Signature { *s.as_raw_value() }
fn mk<C: BlsSignatureImpl + PartialEq>(s: SignatureSchemes, p: <C as Pairing>::Signature) -> Signature<C> {
    match s { SignatureSchemes::Basic => Signature::Basic(p), SignatureSchemes::MessageAugmentation => Signature::MessageAugmentation(p), SignatureSchemes::ProofOfPossession => Signature::ProofOfPossession(p) }
}

fn perturbed_verify<C: BlsSignatureImpl + PartialEq>(c: &Value, keys: &[SecretKey<C>]) -> Option<String> {
    let s = scheme_of(&c["scheme"]);
    let sk = &keys[3]; let sk2 = &keys[4];
    let m = b"perturbation base message".to_vec();
    let pk = sk.public_key();
    let sig = sk.sign(s, &m).ok()?;
    let g_sig = <C as Pairing>::Signature::generator();
    let g_pk = <C as Pairing>::PublicKey::generator();
    let expect_err = |r: BlsResult<()>, what: &str| if r.is_ok() { Some(format!("{} was accepted", what)) } else { None };
    match c["kind"].as_str().unwrap() {
        "honest_edge_msgs" => {
            for mm in msgs() {
                let sg = match sk.sign(s, &mm) { Ok(x) => x, Err(e) => return Some(format!("sign failed for a message of length {}: {}", mm.len(), e)) };
                if let Err(e) = sg.verify(&pk, &mm) { return Some(format!("the one valid signature is rejected for a message of length {}: {}", mm.len(), e)); }
            }
            None
        }
        "ietf_reference" => {
            // the draft's signature, computed with core_sign over the draft's message form under the scheme's tag:
            // m (Basic, PoP), PK || m (AUG) — it is the one element the library accepts, and what the library signs
            for mm in msgs().into_iter().take(12) {
                let (dst, framed): (&[u8], Vec<u8>) = match s {
                    SignatureSchemes::Basic => (<C as BlsSignatureBasic>::DST, mm.clone()),
                    SignatureSchemes::MessageAugmentation => (<C as BlsSignatureMessageAugmentation>::DST, [Vec::<u8>::from(&pk), mm.clone()].concat()),
                    SignatureSchemes::ProofOfPossession => (<C as BlsSignaturePop>::SIG_DST, mm.clone()),
                };
                let reference = <C as BlsSignatureCore>::core_sign(&sk.0, framed.as_slice(), dst).ok()?;
                if let Err(e) = mk::<C>(s, reference).verify(&pk, &mm) { return Some(format!("the draft's {} signature of a {}-byte message is rejected: {}", scheme_name(s), mm.len(), e)); }
                if sig_pt(&sk.sign(s, &mm).ok()?) != reference { return Some(format!("the library's {} signature of a {}-byte message is not the draft's", scheme_name(s), mm.len())); }
            }
            None
        }
        "neg_sig" => expect_err(mk::<C>(s, -sig_pt(&sig)).verify(&pk, &m), "-sig"),
        "sig_plus_g" => expect_err(mk::<C>(s, sig_pt(&sig) + g_sig).verify(&pk, &m), "sig+G"),
        "double_sig" => expect_err(mk::<C>(s, sig_pt(&sig) + sig_pt(&sig)).verify(&pk, &m), "2*sig"),
        "other_msg" => expect_err(sig.verify(&pk, b"another message"), "signature of another message"),
        "truncated_msg" => expect_err(sig.verify(&pk, &m[..m.len() - 1]), "truncated message"),
        "other_key" => expect_err(sig.verify(&sk2.public_key(), &m), "another public key"),
        "pk_plus_g" => expect_err(sig.verify(&PublicKey(pk.0 + g_pk), &m), "pk+G"),
        "neg_pk" => expect_err(sig.verify(&PublicKey(-pk.0), &m), "-pk"),
        "relabel" => {
            for s2 in schemes() { if s2 != s { if mk::<C>(s2, sig_pt(&sig)).verify(&pk, &m).is_ok() { return Some(format!("signature of {} accepted as {}", scheme_name(s), scheme_name(s2))); } } }
            None
        }
        "identity_both" => expect_err(mk::<C>(s, <C as Pairing>::Signature::identity()).verify(&PublicKey(<C as Pairing>::PublicKey::identity()), &m), "identity key with identity signature"),
        "sum_valid" => {
            if s == SignatureSchemes::MessageAugmentation { return None; }
            let sig2 = sk2.sign(s, &m).ok()?;
            let r = mk::<C>(s, sig_pt(&sig) + sig_pt(&sig2)).verify(&PublicKey(pk.0 + sk2.public_key().0), &m);
            if r.is_err() { Some("valid related tuple (pk1+pk2, sig1+sig2) rejected".into()) } else { None }
        }
        _ => None,
    }
}

fn identity_inputs<C: BlsSignatureImpl + PartialEq>(c: &Value, keys: &[SecretKey<C>]) -> Option<String> {
    let s = scheme_of(&c["scheme"]);
    let sk = &keys[3];
    let m = b"identity probe".to_vec();
    let pk = sk.public_key();
    let sig = sk.sign(s, &m).ok()?;
    let id_sig = <C as Pairing>::Signature::identity();
    let id_pk = <C as Pairing>::PublicKey::identity();
    let zero = SecretKey::<C>(<<C as Pairing>::PublicKey as Group>::Scalar::ZERO);
    let acc = |r: bool, what: &str| if r { Some(format!("{} accepted", what)) } else { None };
    match c["kind"].as_str().unwrap() {
        "id_pk" => acc(sig.verify(&PublicKey(id_pk), &m).is_ok(), "identity public key"),
        "id_sig" => acc(mk::<C>(s, id_sig).verify(&pk, &m).is_ok(), "identity signature"),
        "id_both" => acc(mk::<C>(s, id_sig).verify(&PublicKey(id_pk), &m).is_ok(), "identity key + identity signature"),
        "zero_sign" => acc(zero.sign(s, &m).is_ok(), "signing with the zero key"),
        "zero_pop" => acc(zero.proof_of_possession().is_ok(), "proof of possession with the zero key"),
        "id_pop" => acc(ProofOfPossession::<C>(id_sig).verify(pk).is_ok(), "identity proof of possession"),
        "id_pop_pk" => acc(ProofOfPossession::<C>(id_sig).verify(PublicKey(id_pk)).is_ok(), "identity proof of possession for identity key"),
        "pok_id_commitment" | "pok_id_response" | "pok_id_key" | "pok_zero_challenge" => {
            // proofs of knowledge with an identity / zero component CRAFTED so that the pairing equation
            // holds (u = O, v = -(y*sig), i.e. the prover secret x = 0): must be rejected by the guards
            let y = ProofCommitmentChallenge::<C>::from_hash(b"witness challenge");
            let sp = sig_pt(&sig);
            let (u, v, yy, key) = match c["kind"].as_str().unwrap() {
                "pok_id_commitment" => (id_sig, -(sp * y.0), y, pk),
                "pok_id_response" => (id_sig, id_sig, y, PublicKey(id_pk)),
                "pok_id_key" => (sp, -sp, y, PublicKey(id_pk)),
                _ => (id_sig, id_sig, ProofCommitmentChallenge::<C>(<<C as Pairing>::PublicKey as Group>::Scalar::ZERO), pk),
            };
            let p = match s { SignatureSchemes::Basic => ProofOfKnowledge::<C>::Basic { u, v }, SignatureSchemes::MessageAugmentation => ProofOfKnowledge::MessageAugmentation { u, v }, _ => ProofOfKnowledge::ProofOfPossession { u, v } };
            acc(p.verify(key, &m, yy).is_ok(), "proof of knowledge with an identity / zero component")
        }
        "zero_from_bytes" => acc(SecretKey::<C>::try_from(&[0u8; 32][..]).is_ok() || bool::from(SecretKey::<C>::from_be_bytes(&[0u8; 32]).is_some()) || bool::from(SecretKey::<C>::from_le_bytes(&[0u8; 32]).is_some()), "zero key from bytes"),
        k if k.starts_with("agg_") || k == "multi_id_key" => {
            let sk2 = &keys[4];
            let m2 = b"identity probe 2".to_vec();
            let sig2 = sk2.sign(s, &m2).ok()?;
            if k == "multi_id_key" {
                if s == SignatureSchemes::MessageAugmentation { return None; }
                // two keys summing to the identity; the "multi-signature" is the identity too
                let msig = match MultiSignature::<C>::from_signatures(&[sig, mk::<C>(s, -sig_pt(&sig))]) { Ok(x) => x, Err(_) => return None };
                let mpk = MultiPublicKey::<C>::from_public_keys(&[pk, PublicKey(-pk.0)]);
                return acc(msig.verify(mpk, &m).is_ok(), "accumulated identity key");
            }
            let agg = AggregateSignature::<C>::from_signatures(&[sig, sig2]).ok()?;
            match k {
                // identity key in the list, aggregate = signature of the remaining signer only
                "agg_id_pk_first" => {
                    let a = match s { SignatureSchemes::Basic => AggregateSignature::<C>::Basic(sig_pt(&sig2)), SignatureSchemes::MessageAugmentation => AggregateSignature::MessageAugmentation(sig_pt(&sig2)), _ => AggregateSignature::ProofOfPossession(sig_pt(&sig2)) };
                    if s == SignatureSchemes::MessageAugmentation { return acc(a.verify(&[(PublicKey(id_pk), m.clone()), (sk2.public_key(), m2.clone())]).is_ok(), "identity key first in aggregate list"); }
                    acc(a.verify(&[(PublicKey(id_pk), m.clone()), (sk2.public_key(), m2.clone())]).is_ok(), "identity key first in aggregate list")
                }
                "agg_id_pk_last" => {
                    let a = match s { SignatureSchemes::Basic => AggregateSignature::<C>::Basic(sig_pt(&sig)), SignatureSchemes::MessageAugmentation => AggregateSignature::MessageAugmentation(sig_pt(&sig)), _ => AggregateSignature::ProofOfPossession(sig_pt(&sig)) };
                    // ... also when every pair carries the same message (the sum of the keys then hides the identity key)
                    if s != SignatureSchemes::Basic {
                        if a.verify(&[(pk, m.clone()), (PublicKey(id_pk), m.clone())]).is_ok() || a.verify(&[(PublicKey(id_pk), m.clone()), (pk, m.clone())]).is_ok() {
                            return Some("identity key in an aggregate list whose messages are all equal was accepted".into());
                        }
                    }
                    acc(a.verify(&[(pk, m.clone()), (PublicKey(id_pk), m2.clone())]).is_ok(), "identity key last in aggregate list")
                }
                _ => {
                    let _ = agg;
                    let a = match s { SignatureSchemes::Basic => AggregateSignature::<C>::Basic(id_sig), SignatureSchemes::MessageAugmentation => AggregateSignature::MessageAugmentation(id_sig), _ => AggregateSignature::ProofOfPossession(id_sig) };
                    acc(a.verify(&[(PublicKey(id_pk), m.clone()), (PublicKey(id_pk), m2.clone())]).is_ok(), "identity aggregate with identity keys")
                }
            }
        }
        _ => None,
    }
}

fn pop<C: BlsSignatureImpl + PartialEq>(c: &Value, keys: &[SecretKey<C>]) -> Option<String> {
    let k = c["key"].as_u64().unwrap() as usize;
    let sk = &keys[k]; let other = &keys[(k + 1) % keys.len()];
    let p = match sk.proof_of_possession() { Ok(p) => p, Err(e) => return Some(format!("proof_of_possession failed: {}", e)) };
    let g = <C as Pairing>::Signature::generator();
    match c["kind"].as_str().unwrap() {
        "own" => { if p != sk.proof_of_possession().unwrap() { return Some("not deterministic".into()); } if p.verify(sk.public_key()).is_err() { Some("own proof of possession rejected".into()) } else { None } }
        "other_key" => if p.verify(other.public_key()).is_ok() { Some("proof accepted for another key".into()) } else { None },
        "neg" => if ProofOfPossession::<C>(-p.0).verify(sk.public_key()).is_ok() { Some("-proof accepted".into()) } else { None },
        _ => if ProofOfPossession::<C>(p.0 + g).verify(sk.public_key()).is_ok() { Some("proof+G accepted".into()) } else { None },
    }
}

/// C05: nothing made for one scheme / purpose is accepted under another
fn domain_sep<C: BlsSignatureImpl + PartialEq + Copy>(c: &Value, keys: &[SecretKey<C>]) -> Option<String> {
    let k = c["key"].as_u64().unwrap() as usize;
    let sk = &keys[k]; let pk = sk.public_key();
    let pkb: Vec<u8> = Vec::from(&pk);
    let m = b"domain separation".to_vec();
    match c["kind"].as_str().unwrap() {
        "pop_as_signature" => {
            let p = sk.proof_of_possession().ok()?;
            for s in schemes() { if mk::<C>(s, p.0).verify(&pk, &pkb).is_ok() { return Some(format!("a proof of possession verifies as a {} signature over the public-key bytes", scheme_name(s))); } }
            None
        }
        "signature_as_pop" => {
            for s in schemes() { let sg = sk.sign(s, &pkb).ok()?; if ProofOfPossession::<C>(sig_pt(&sg)).verify(pk).is_ok() { return Some(format!("a {} signature over the public-key bytes verifies as a proof of possession", scheme_name(s))); } }
            None
        }
        "pops_as_aggregate" => {
            let o = &keys[(k + 1) % keys.len()];
            let (p1, p2) = (sk.proof_of_possession().ok()?, o.proof_of_possession().ok()?);
            let opkb: Vec<u8> = Vec::from(&o.public_key());
            for s in schemes() {
                let a = match AggregateSignature::<C>::from_signatures(&[mk::<C>(s, p1.0), mk::<C>(s, p2.0)]) { Ok(a) => a, Err(_) => continue };
                if a.verify(&[(pk, pkb.clone()), (o.public_key(), opkb.clone())]).is_ok() { return Some(format!("proofs of possession are accepted as a {} aggregate signature over the public-key bytes", scheme_name(s))); }
            }
            None
        }
        "relabel_all" => {
            for s in schemes() { let sg = sk.sign(s, &m).ok()?; for s2 in schemes() { if s2 != s {
                if mk::<C>(s2, sig_pt(&sg)).verify(&pk, &m).is_ok() { return Some(format!("a {} signature verifies under the label {}", scheme_name(s), scheme_name(s2))); }
                let o = &keys[(k + 1) % keys.len()]; let sg2 = o.sign(s, b"second").ok()?;
                if let Ok(a) = AggregateSignature::<C>::from_signatures(&[mk::<C>(s2, sig_pt(&sg)), mk::<C>(s2, sig_pt(&sg2))]) { if a.verify(&[(pk, m.clone()), (o.public_key(), b"second".to_vec())]).is_ok() { return Some(format!("an aggregate of {} signatures verifies under the label {}", scheme_name(s), scheme_name(s2))); } }
            } } }
            None
        }
        "multi_relabel" => {
            let o = &keys[(k + 1) % keys.len()];
            let mpk = MultiPublicKey::<C>::from_public_keys(&[pk, o.public_key()]);
            for s in [SignatureSchemes::Basic, SignatureSchemes::ProofOfPossession] {
                let ms = MultiSignature::<C>::from_signatures(&[sk.sign(s, &m).ok()?, o.sign(s, &m).ok()?]).ok()?;
                if let Err(e) = ms.verify(mpk, &m) { return Some(format!("honest {} multi-signature rejected: {}", scheme_name(s), e)); }
                let pt = *ms.as_raw_value();
                for s2 in schemes() { if s2 != s {
                    let q = match s2 { SignatureSchemes::Basic => MultiSignature::<C>::Basic(pt), SignatureSchemes::MessageAugmentation => MultiSignature::MessageAugmentation(pt), _ => MultiSignature::ProofOfPossession(pt) };
                    if q.verify(mpk, &m).is_ok() { return Some(format!("a {} multi-signature verifies under the label {}", scheme_name(s), scheme_name(s2))); }
                } }
            }
            None
        }
        "pok_ts_relabel" => {
            for s in [SignatureSchemes::Basic, SignatureSchemes::ProofOfPossession] {
                let sg = sk.sign(s, &m).ok()?;
                let p = ProofOfKnowledgeTimestamp::<C>::generate(&m, sg).ok()?;
                if let Err(e) = p.verify(pk, &m, None) { return Some(format!("honest {} timestamp proof rejected: {}", scheme_name(s), e)); }
                let (u, v) = match p.proof { ProofOfKnowledge::Basic { u, v } => (u, v), ProofOfKnowledge::MessageAugmentation { u, v } => (u, v), ProofOfKnowledge::ProofOfPossession { u, v } => (u, v) };
                for s2 in schemes() { if s2 != s {
                    let q = match s2 { SignatureSchemes::Basic => ProofOfKnowledge::<C>::Basic { u, v }, SignatureSchemes::MessageAugmentation => ProofOfKnowledge::MessageAugmentation { u, v }, _ => ProofOfKnowledge::ProofOfPossession { u, v } };
                    let r = ProofOfKnowledgeTimestamp::<C> { proof: q, timestamp: p.timestamp };
                    if r.verify(pk, &m, None).is_ok() { return Some(format!("a {} timestamp proof of knowledge verifies under the label {}", scheme_name(s), scheme_name(s2))); }
                } }
            }
            None
        }
        "pok_relabel" => {
            for s in [SignatureSchemes::Basic, SignatureSchemes::ProofOfPossession] {
                let sg = sk.sign(s, &m).ok()?;
                let (comm, x) = ProofCommitment::<C>::generate(&m, sg).ok()?;
                let y = ProofCommitmentChallenge::<C>::from_hash(b"c05");
                let p = comm.finalize(x, y, sg).ok()?;
                let (u, v) = match p { ProofOfKnowledge::Basic { u, v } => (u, v), ProofOfKnowledge::MessageAugmentation { u, v } => (u, v), ProofOfKnowledge::ProofOfPossession { u, v } => (u, v) };
                for s2 in schemes() { if s2 != s {
                    let q = match s2 { SignatureSchemes::Basic => ProofOfKnowledge::<C>::Basic { u, v }, SignatureSchemes::MessageAugmentation => ProofOfKnowledge::MessageAugmentation { u, v }, _ => ProofOfKnowledge::ProofOfPossession { u, v } };
                    if q.verify(pk, &m, y).is_ok() { return Some(format!("a {} proof of knowledge verifies under the label {}", scheme_name(s), scheme_name(s2))); }
                } }
            }
            None
        }
        _ => {
            for s in schemes() {
                let ct = pk.sign_crypt(s, &m);
                let tc = pk.encrypt_time_lock(s, &m, b"id").ok()?;
                for s2 in schemes() { if s2 != s {
                    let mut x = ct.clone(); x.scheme = s2;
                    if bool::from(x.is_valid()) || bool::from(x.decrypt(sk).is_some()) { return Some(format!("a {} signcryption ciphertext is accepted under the label {}", scheme_name(s), scheme_name(s2))); }
                    let sg2 = sk.sign(s2, b"id").ok()?;
                    if bool::from(tc.decrypt(&sg2).is_some()) { return Some(format!("a {} time-lock ciphertext opens with a {} signature", scheme_name(s), scheme_name(s2))); }
                    let mut t2 = tc.clone(); t2.scheme = s2;
                    if bool::from(t2.decrypt(&sk.sign(s, b"id").ok()?).is_some()) { return Some(format!("a {} time-lock ciphertext relabelled {} opens with the original signature", scheme_name(s), scheme_name(s2))); }
                } }
            }
            None
        }
    }
}

fn aggregate<C: BlsSignatureImpl + PartialEq>(c: &Value, keys: &[SecretKey<C>]) -> Option<String> {
    let s = scheme_of(&c["scheme"]);
    let n = c["n"].as_u64().unwrap() as usize;
    let sks: Vec<SecretKey<C>> = (0..n).map(|i| SecretKey::<C>::from_hash(format!("agg key {}", i))).collect();
    let _ = keys;
    let ms: Vec<Vec<u8>> = (0..n).map(|i| format!("message number {}", i).into_bytes()).collect();
    let sigs: Vec<Signature<C>> = sks.iter().zip(ms.iter()).map(|(k, m)| k.sign(s, m).unwrap()).collect();
    let data: Vec<(PublicKey<C>, Vec<u8>)> = sks.iter().zip(ms.iter()).map(|(k, m)| (k.public_key(), m.clone())).collect();
    let kind = c["kind"].as_str().unwrap();
    if kind == "single" { return if AggregateSignature::<C>::from_signatures(&sigs[..1]).is_ok() { Some("aggregate of one signature accepted".into()) } else { None }; }
    if kind == "mixed" {
        let other = if s == SignatureSchemes::Basic { SignatureSchemes::ProofOfPossession } else { SignatureSchemes::Basic };
        for pos in 0..n {
            let mut v = sigs.clone();
            v[pos] = sks[pos].sign(other, &ms[pos]).unwrap();
            if AggregateSignature::<C>::from_signatures(&v).is_ok() { return Some(format!("mixed schemes accepted (odd one at position {})", pos)); }
        }
        return None;
    }
    let agg = match AggregateSignature::<C>::from_signatures(&sigs) { Ok(a) => a, Err(e) => return Some(format!("aggregation refused: {}", e)) };
    match kind {
        "honest" => if let Err(e) = agg.verify(&data) { Some(format!("honest aggregate rejected: {}", e)) } else { None },
        "permuted" => { let mut d = data.clone(); d.reverse(); if let Err(e) = agg.verify(&d) { Some(format!("permuted list rejected: {}", e)) } else { None } }
        "dup_msg" => {
            // one repeated message at every pair of positions (i, j), plus all-equal
            let mut variants: Vec<Vec<Vec<u8>>> = vec![vec![b"same".to_vec(); n]];
            for i in 0..n { for j in (i + 1)..n { let mut v = ms.clone(); v[j] = v[i].clone(); variants.push(v); } }
            for mv in variants {
                let sg: Vec<Signature<C>> = sks.iter().zip(mv.iter()).map(|(k, m)| k.sign(s, m).unwrap()).collect();
                let a = AggregateSignature::<C>::from_signatures(&sg).ok()?;
                let d: Vec<(PublicKey<C>, Vec<u8>)> = sks.iter().zip(mv.iter()).map(|(k, m)| (k.public_key(), m.clone())).collect();
                let r = a.verify(&d);
                match s { SignatureSchemes::Basic => if r.is_ok() { return Some("Basic accepted a list with a repeated message".into()); },
                          _ => if r.is_err() { return Some(format!("{} rejected repeated messages", scheme_name(s))); } }
            }
            None
        }
        "dup_pair" => {
            // the signer at position i contributes the same (key, message) pair twice
            for i in 0..n {
                let mut sg = sigs.clone(); sg.push(sigs[i].clone());
                let mut d = data.clone(); d.push(data[i].clone());
                let a = AggregateSignature::<C>::from_signatures(&sg).ok()?;
                let r = a.verify(&d);
                match s { SignatureSchemes::Basic => if r.is_ok() { return Some("Basic accepted a list with a repeated (key, message) pair".into()); },
                          _ => if let Err(e) = r { return Some(format!("{}: the aggregate over a list in which pair {} occurs twice is rejected (the draft pairs it twice): {}", scheme_name(s), i, e)); } }
            }
            None
        }
        "add_pair" => {
            // a pair added to the producing list (a stranger's key, or the identity key, which adds nothing to
            // the sum), at every position, for distinct messages and for one common message
            let same: Vec<Vec<u8>> = vec![b"one common message".to_vec(); n];
            for mv in [ms.clone(), same] {
                if s == SignatureSchemes::Basic && mv[0] == mv[1] { continue; }
                let sg: Vec<Signature<C>> = sks.iter().zip(mv.iter()).map(|(k, m)| k.sign(s, m).unwrap()).collect();
                let a = AggregateSignature::<C>::from_signatures(&sg).ok()?;
                let d: Vec<(PublicKey<C>, Vec<u8>)> = sks.iter().zip(mv.iter()).map(|(k, m)| (k.public_key(), m.clone())).collect();
                if let Err(e) = a.verify(&d) { return Some(format!("honest aggregate rejected: {}", e)); }
                for (who, extra) in [("a stranger's key", SecretKey::<C>::from_hash(b"stranger").public_key()), ("the identity key", PublicKey::<C>(<C as Pairing>::PublicKey::identity()))] {
                    for pos in 0..=n { for em in [mv[0].clone(), b"an added message".to_vec()] {
                        let mut d2 = d.clone(); d2.insert(pos, (extra, em));
                        if a.verify(&d2).is_ok() { return Some(format!("the list with a pair added at position {} ({}) is accepted", pos, who)); }
                    } }
                }
            }
            None
        }
        "drop_last" => if agg.verify(&data[..n - 1]).is_ok() { Some("list with a pair dropped accepted".into()) } else { None },
        "alter_first_msg" => { let mut d = data.clone(); d[0].1.push(1); if agg.verify(&d).is_ok() { Some("altered first message accepted".into()) } else { None } }
        "alter_last_key" => { let mut d = data.clone(); d[n - 1].0 = SecretKey::<C>::from_hash(b"stranger").public_key(); if agg.verify(&d).is_ok() { Some("replaced last key accepted".into()) } else { None } }
        "swap_msgs" => { let mut d = data.clone(); let t = d[0].1.clone(); d[0].1 = d[n - 1].1.clone(); d[n - 1].1 = t; if agg.verify(&d).is_ok() { Some("swapped messages accepted".into()) } else { None } }
        _ => None,
    }
}

fn multi<C: BlsSignatureImpl + PartialEq>(c: &Value, _keys: &[SecretKey<C>]) -> Option<String> {
    let s = scheme_of(&c["scheme"]);
    let n = c["n"].as_u64().unwrap() as usize;
    let sks: Vec<SecretKey<C>> = (0..n).map(|i| SecretKey::<C>::from_hash(format!("multi key {}", i))).collect();
    let m = b"the one message".to_vec();
    let sigs: Vec<Signature<C>> = sks.iter().map(|k| k.sign(s, &m).unwrap()).collect();
    let pks: Vec<PublicKey<C>> = sks.iter().map(|k| k.public_key()).collect();
    let kind = c["kind"].as_str().unwrap();
    let r = MultiSignature::<C>::from_signatures(&sigs);
    if s == SignatureSchemes::MessageAugmentation {
        return if r.is_ok() { Some("message-augmentation signatures were accumulated".into()) } else { None };
    }
    let other = if s == SignatureSchemes::Basic { SignatureSchemes::ProofOfPossession } else { SignatureSchemes::Basic };
    match kind {
        "single" => return if MultiSignature::<C>::from_signatures(&sigs[..1]).is_ok() { Some("one signature accumulated".into()) } else { None },
        "mixed_first" | "mixed_later" | "aug_first" | "aug_later" => {
            let pos = if kind.ends_with("first") { 0 } else { n - 1 };
            let sc = if kind.starts_with("aug") { SignatureSchemes::MessageAugmentation } else { other };
            let mut v = sigs.clone();
            v[pos] = sks[pos].sign(sc, &m).unwrap();
            return if MultiSignature::<C>::from_signatures(&v).is_ok() { Some(format!("{} signature at position {} accumulated with {} ones", scheme_name(sc), pos, scheme_name(s))) } else { None };
        }
        _ => {}
    }
    let ms = match r { Ok(x) => x, Err(e) => return Some(format!("accumulation refused: {}", e)) };
    let mpk = MultiPublicKey::<C>::from_public_keys(&pks);
    match kind {
        "honest" => if let Err(e) = ms.verify(mpk, &m) { Some(format!("honest multi-signature rejected: {}", e)) } else { None },
        "sum_check" => {
            let mut g = <C as Pairing>::Signature::identity();
            for x in &sigs { g += x.as_raw_value(); }
            if *ms.as_raw_value() != g { Some("multi-signature is not the plain group sum".into()) } else { None }
        }
        "missing_signer" => if ms.verify(MultiPublicKey::<C>::from_public_keys(&pks[..n - 1]), &m).is_ok() { Some("accepted with a signer missing".into()) } else { None },
        "extra_signer" => { let mut p = pks.clone(); p.push(SecretKey::<C>::from_hash(b"extra").public_key()); if ms.verify(MultiPublicKey::<C>::from_public_keys(&p), &m).is_ok() { Some("accepted with a signer added".into()) } else { None } }
        "other_msg" => if ms.verify(mpk, b"other").is_ok() { Some("accepted for another message".into()) } else { None },
        "repeated_signer" => {
            // a signer listed twice contributes twice on BOTH sides: [k0, k1, k1] verifies against pk0 + 2*pk1
            // and not against the key set without the repetition (and vice versa)
            for pos in 0..n { for at in 0..=n {
                let mut s2 = sigs.clone(); s2.insert(at, sigs[pos]);
                let mut p2 = pks.clone(); p2.insert(at, pks[pos]);
                let m2 = match MultiSignature::<C>::from_signatures(&s2) { Ok(x) => x, Err(e) => return Some(format!("accumulation with a repeated signer failed: {}", e)) };
                let k2 = MultiPublicKey::<C>::from_public_keys(&p2);
                let mut sum = <C as Pairing>::PublicKey::identity(); for p in &p2 { sum += p.0; }
                if k2.0 != sum { return Some(format!("the accumulated key of a list with signer {} repeated is not the sum of the listed keys", pos)); }
                if let Err(e) = m2.verify(k2, &m) { return Some(format!("multi-signature with signer {} listed twice is rejected against the key set of exactly those signers: {}", pos, e)); }
                if m2.verify(mpk, &m).is_ok() { return Some("multi-signature with a repeated signer accepted for the key set without the repetition".into()); }
                if ms.verify(k2, &m).is_ok() { return Some("multi-signature accepted for a key set with a signer added (repeated)".into()); }
            }}
            None
        }
        _ => None,
    }
}

fn pok<C: BlsSignatureImpl + PartialEq + Copy>(c: &Value, keys: &[SecretKey<C>]) -> Option<String> {
    let s = scheme_of(&c["scheme"]);
    let sk = &keys[3];
    let pk = sk.public_key();
    let m = b"proof of knowledge message".to_vec();
    let sig = sk.sign(s, &m).ok()?;
    let kind = c["kind"].as_str().unwrap();
    if kind.starts_with("ts_") {
        let p = match ProofOfKnowledgeTimestamp::<C>::generate(&m, sig) { Ok(p) => p, Err(e) => return Some(format!("generate failed: {}", e)) };
        if kind == "ts_future_consistent" {
            // a proof whose challenge was derived FOR a future timestamp (the holder of a signature can do that):
            // with a timeout it must be refused — its remaining lifetime would otherwise exceed the timeout
            if s == SignatureSchemes::MessageAugmentation { return None; }
            let now = std::time::SystemTime::now().duration_since(std::time::UNIX_EPOCH).ok()?.as_millis() as u64;
            for ahead in [3_600_000u64, 86_400_000, u64::MAX - now] {
                let t = now + ahead;
                let (comm, x) = ProofCommitment::<C>::generate(&m, sig).ok()?;
                let u = match comm { ProofCommitment::Basic(u) | ProofCommitment::MessageAugmentation(u) | ProofCommitment::ProofOfPossession(u) => u };
                let y = ProofCommitmentChallenge::<C>(<C as BlsSignatureProof>::compute_y(u, t));
                let proof = comm.finalize(x, y, sig).ok()?;
                let q = ProofOfKnowledgeTimestamp::<C> { proof, timestamp: t };
                if q.verify(pk, &m, None).is_err() { return Some("a proof with a consistent future timestamp is rejected even without a timeout".into()); }
                if q.verify(pk, &m, Some(1000)).is_ok() { return Some(format!("a proof dated {} ms ahead passes a 1000 ms timeout", ahead)); }
            }
            return None;
        }
        return match kind {
            "ts_no_timeout" => if let Err(e) = p.verify(pk, &m, None) { Some(format!("timestamp proof rejected without timeout: {}", e)) } else { None },
            "ts_huge_timeout" => { for tt in [u64::MAX, u64::MAX - 1, u64::MAX - 1_000_000, u64::MAX / 2, 1u64 << 63] { if let Err(e) = p.verify(pk, &m, Some(tt)) { return Some(format!("fresh timestamp proof rejected within the timeout {}: {}", tt, e)); } } None }
            "ts_within" => if let Err(e) = p.verify(pk, &m, Some(60_000)) { Some(format!("timestamp proof rejected within the timeout: {}", e)) } else { None },
            "ts_elapsed" => { std::thread::sleep(std::time::Duration::from_millis(30)); if p.verify(pk, &m, Some(5)).is_ok() { Some("accepted after the timeout elapsed".into()) } else { None } }
            "ts_altered" => { let mut q = p; q.timestamp -= 10; if q.verify(pk, &m, None).is_ok() { Some("altered timestamp accepted".into()) } else { None } }
            "ts_future" => { let mut q = p; q.timestamp += 1_000_000; let _ = q.verify(pk, &m, Some(1000)); None }
            _ => { let mut q = p; q.timestamp = u64::MAX; let _ = q.verify(pk, &m, Some(1000)); None }
        };
    }
    let (comm, x) = match ProofCommitment::<C>::generate(&m, sig) { Ok(p) => p, Err(e) => return Some(format!("generate failed: {}", e)) };
    let y = ProofCommitmentChallenge::<C>::from_hash(b"challenge");
    let y2 = ProofCommitmentChallenge::<C>(y.0); let proof = match comm.finalize(x, y2, sig) { Ok(p) => p, Err(e) => return Some(format!("finalize failed: {}", e)) };
    let g = <C as Pairing>::Signature::generator();
    let tamper = |p: &ProofOfKnowledge<C>, which: u8| -> ProofOfKnowledge<C> {
        let (u, v) = match p { ProofOfKnowledge::Basic { u, v } | ProofOfKnowledge::MessageAugmentation { u, v } | ProofOfKnowledge::ProofOfPossession { u, v } => (*u, *v) };
        let (u, v) = if which == 0 { (u + g, v) } else { (u, v + g) };
        match p { ProofOfKnowledge::Basic { .. } => ProofOfKnowledge::Basic { u, v }, ProofOfKnowledge::MessageAugmentation { .. } => ProofOfKnowledge::MessageAugmentation { u, v }, _ => ProofOfKnowledge::ProofOfPossession { u, v } }
    };
    match kind {
        "complete" => if let Err(e) = proof.verify(pk, &m, y) { Some(format!("honest proof of knowledge rejected: {}", e)) } else { None },
        "other_challenge" => if proof.verify(pk, &m, ProofCommitmentChallenge::<C>::from_hash(b"other")).is_ok() { Some("accepted for another challenge".into()) } else { None },
        "other_msg" => if proof.verify(pk, b"other message", y).is_ok() { Some("accepted for another message".into()) } else { None },
        "other_key" => if proof.verify(keys[4].public_key(), &m, y).is_ok() { Some("accepted for another key".into()) } else { None },
        "forged_id_response" => {
            // no signature at all: once the challenge is known, u = -(H(m) * y) with the identity as response
            // satisfies the pairing equation trivially; the identity guard is what refuses it
            if s == SignatureSchemes::MessageAugmentation { return None; }
            let u = -sig_pt(&SecretKey::<C>(y.0).sign(s, &m).ok()?);
            let id = <C as Pairing>::Signature::identity();
            let forged = match s { SignatureSchemes::Basic => ProofOfKnowledge::<C>::Basic { u, v: id }, _ => ProofOfKnowledge::ProofOfPossession { u, v: id } };
            if forged.verify(keys[4].public_key(), &m, y).is_ok() { return Some("a proof with the identity as response, made without any signature, verifies for a stranger's key".into()); }
            let forged2 = match s { SignatureSchemes::Basic => ProofOfKnowledge::<C>::Basic { u: id, v: u }, _ => ProofOfKnowledge::ProofOfPossession { u: id, v: u } };
            if forged2.verify(pk, &m, y).is_ok() { return Some("a proof with the identity as commitment verifies".into()); }
            None
        }
        "tamper_u" => if tamper(&proof, 0).verify(pk, &m, y).is_ok() { Some("modified u accepted".into()) } else { None },
        _ => if tamper(&proof, 1).verify(pk, &m, y).is_ok() { Some("modified v accepted".into()) } else { None },
    }
}

/// every call must RETURN (a value, None or an error); a panic is reported by `run`
fn no_panic<C: BlsSignatureImpl + PartialEq + Copy>(c: &Value, keys: &[SecretKey<C>]) -> Option<String> {
    let mut b = [0u8; 32];
    match c["kind"].as_str().unwrap() {
        "sk_be_0x80" => { b[31] = 0x80; let _ = SecretKey::<C>::from_be_bytes(&b); }
        "sk_le_0x80" => { b[0] = 0x80; let _ = SecretKey::<C>::from_le_bytes(&b); }
        "sk_try_from_0x80" => { b[5] = 0x80; let _ = SecretKey::<C>::try_from(&b[..]); }
        "ske_empty" => { let _ = SecretKeyEnum::try_from(&[][..]); }
        "ske_be_empty" => { let _ = SecretKeyEnum::from_be_bytes(&[]); }
        "ske_le_empty" => { let _ = SecretKeyEnum::from_le_bytes(&[]); }
        k => {
            let sk = &keys[3];
            let m = b"m".to_vec();
            let sig = sk.sign(SignatureSchemes::Basic, &m).ok()?;
            let mut p = ProofOfKnowledgeTimestamp::<C>::generate(&m, sig).ok()?;
            if k == "ts_future" { p.timestamp += 1_000_000; } else { p.timestamp = u64::MAX; }
            let _ = p.verify(sk.public_key(), &m, Some(1000));
        }
    }
    None
}

trait Curve { fn wrap(sk: Scalar) -> SecretKeyEnum; fn is(k: &SecretKeyEnum) -> bool; }
impl Curve for G1 { fn wrap(sk: Scalar) -> SecretKeyEnum { SecretKeyEnum::G1(SecretKey(sk)) } fn is(k: &SecretKeyEnum) -> bool { matches!(k, SecretKeyEnum::G1(_)) } }
impl Curve for G2 { fn wrap(sk: Scalar) -> SecretKeyEnum { SecretKeyEnum::G2(SecretKey(sk)) } fn is(k: &SecretKeyEnum) -> bool { matches!(k, SecretKeyEnum::G2(_)) } }

fn codec<C: BlsSignatureImpl + PartialEq + Copy>(c: &Value, keys: &[SecretKey<C>]) -> Option<String> {
    let sk = &keys[c["key"].as_u64().unwrap() as usize];
    let g1 = c["group"] == "G1";
    let e = if g1 { <G1 as Curve>::wrap(keys_g1()[c["key"].as_u64().unwrap() as usize].0) } else { <G2 as Curve>::wrap(keys_g2()[c["key"].as_u64().unwrap() as usize].0) };
    let same = |k: &SecretKeyEnum| if g1 { <G1 as Curve>::is(k) } else { <G2 as Curve>::is(k) };
    match c["kind"].as_str().unwrap() {
        "sk_bytes" => {
            let be = sk.to_be_bytes(); let le = sk.to_le_bytes();
            let mut r = le; r.reverse();
            if be != r { return Some("to_be_bytes is not the reverse of to_le_bytes".into()); }
            match Option::<SecretKey<C>>::from(SecretKey::<C>::from_be_bytes(&be)) { Some(k) if k == *sk => {}, _ => return Some("from_be_bytes(to_be_bytes(sk)) != sk".into()) }
            match Option::<SecretKey<C>>::from(SecretKey::<C>::from_le_bytes(&le)) { Some(k) if k == *sk => {}, _ => return Some("from_le_bytes(to_le_bytes(sk)) != sk".into()) }
            let v: Vec<u8> = Vec::from(sk);
            match SecretKey::<C>::try_from(v.as_slice()) { Ok(k) if k == *sk => None, _ => Some("try_from(Vec::from(sk)) != sk".into()) }
        }
        "ske_vec" => { let v: Vec<u8> = Vec::from(&e); match SecretKeyEnum::try_from(v.as_slice()) { Ok(k) if k == e && same(&k) => None, Ok(_) => Some("SecretKeyEnum bytes come back as another variant/key".into()), Err(x) => Some(format!("SecretKeyEnum::try_from(Vec::from(k)) failed: {}", x)) } }
        "ske_be" => { let v = e.to_be_bytes(); match Option::<SecretKeyEnum>::from(SecretKeyEnum::from_be_bytes(&v)) { Some(k) if k == e && same(&k) => None, Some(_) => Some("SecretKeyEnum big-endian bytes come back as another variant/key".into()), None => Some("SecretKeyEnum::from_be_bytes(to_be_bytes(k)) is None".into()) } }
        "ske_le" => { let v = e.to_le_bytes(); match Option::<SecretKeyEnum>::from(SecretKeyEnum::from_le_bytes(&v)) { Some(k) if k == e && same(&k) => None, Some(_) => Some("SecretKeyEnum little-endian bytes come back as another variant/key".into()), None => Some("SecretKeyEnum::from_le_bytes(to_le_bytes(k)) is None".into()) } }
        "pk_bytes" => { let pk = sk.public_key(); let v: Vec<u8> = Vec::from(&pk); match PublicKey::<C>::try_from(v.as_slice()) { Ok(p) if p == pk => None, _ => Some("public key bytes do not round-trip".into()) } }
        _ => { if SecretKey::<C>::try_from(&[0u8; 32][..]).is_ok() { Some("zero key imported".into()) } else { None } }
    }
}

fn signcrypt<C: BlsSignatureImpl + PartialEq + Copy>(c: &Value, keys: &[SecretKey<C>]) -> Option<String> {
    let s = scheme_of(&c["scheme"]);
    let sk = &keys[3];
    let pk = sk.public_key();
    let kind = c["kind"].as_str().unwrap();
    let lens: Vec<usize> = (0..41).chain(100..141).chain([16383usize, 16384, 16385, 65535]).collect();
    if kind == "round_trip" {
        for l in lens {
            let m: Vec<u8> = (0..l).map(|i| (i * 31 + 7) as u8).collect();
            let ct = pk.sign_crypt(s, &m);
            if !bool::from(ct.is_valid()) { return Some(format!("fresh ciphertext (message length {}) reports invalid", l)); }
            match Option::<Vec<u8>>::from(ct.decrypt(sk)) { Some(p) if p == m => {}, Some(_) => return Some(format!("decrypts to another message (length {})", l)), None => return Some(format!("does not decrypt (length {})", l)) }
            match Option::<Vec<u8>>::from(sk.sign_decryption_key::<Vec<u8>>(&ct).decrypt(&ct)) { Some(p) if p == m => {}, _ => return Some(format!("decryption key path fails (length {})", l)) }
        }
        return None;
    }
    let m = b"attack at dawn, bring snacks".to_vec();
    let ct = pk.sign_crypt(s, &m);
    let gp = <C as Pairing>::PublicKey::generator();
    let gs = <C as Pairing>::Signature::generator();
    let mut t = ct.clone();
    match kind {
        "flip_v" => { for i in 0..t.v.len() { for b in 0..8 { let mut x = ct.clone(); x.v[i] ^= 1 << b; if bool::from(x.is_valid()) || bool::from(x.decrypt(sk).is_some()) { return Some(format!("bit {} of v[{}] flipped: still valid/decrypts", b, i)); } } } return None; }
        "truncate_v" => { t.v.pop(); }
        "extend_v" => { t.v.push(0); }
        "tamper_u" => { t.u = t.u + gp; }
        "tamper_w" => { t.w = t.w + gs; }
        "relabel" => { for s2 in schemes() { if s2 != s { let mut x = ct.clone(); x.scheme = s2; if bool::from(x.is_valid()) || bool::from(x.decrypt(sk).is_some()) { return Some(format!("relabelled as {} still valid", scheme_name(s2))); } } } return None; }
        "wrong_key" => { return match Option::<Vec<u8>>::from(ct.decrypt(&keys[4])) { Some(p) if p == m => Some("another secret key recovered the message".into()), _ => None }; }
        "both_identity" | "u_identity" | "w_identity" => {
            // identity points in U and/or W (with the honest V and with a forged V under the public identity-point keystream)
            let idp = <C as Pairing>::PublicKey::identity(); let ids = <C as Pairing>::Signature::identity();
            let mut forged = b"\x10pay mallory 1000".to_vec(); forged.resize(32, 0);
            for v in [ct.v.clone(), <C as BlsSignCrypt>::compute_v(idp, forged.as_slice())] {
                let mut x = ct.clone(); x.v = v;
                if kind != "w_identity" { x.u = idp; }
                if kind != "u_identity" { x.w = ids; }
                if bool::from(x.is_valid()) { return Some(format!("{}: a ciphertext with identity point(s) reports valid", kind)); }
                if bool::from(x.decrypt(sk).is_some()) || bool::from(sk.sign_decryption_key::<Vec<u8>>(&x).decrypt(&x).is_some()) { return Some(format!("{}: a ciphertext with identity point(s) decrypts to something", kind)); }
            }
            return None;
        }
        _ => { t.v = vec![]; let _ = t.decrypt(sk); let _ = t.is_valid(); return None; }
    }
    if bool::from(t.is_valid()) || bool::from(t.decrypt(sk).is_some()) { Some(format!("{}: altered ciphertext still valid/decrypts", kind)) } else { None }
}

fn timelock<C: BlsSignatureImpl + PartialEq + Copy>(c: &Value, keys: &[SecretKey<C>]) -> Option<String> {
    let s = scheme_of(&c["scheme"]);
    let sk = &keys[3];
    let pk = sk.public_key();
    let kind = c["kind"].as_str().unwrap();
    let id = b"epoch 42".to_vec();
    let sig = sk.sign(s, &id).ok()?;
    if kind == "round_trip" {
        for l in (0..41usize).chain(100..141).chain([16383usize, 16384, 16385]) { for idv in [vec![], id.clone()] {
            let m: Vec<u8> = (0..l).map(|i| (i * 13 + 5) as u8).collect();
            let ct = match pk.encrypt_time_lock(s, &m, &idv) { Ok(c) => c, Err(e) => return Some(format!("encrypt failed: {}", e)) };
            let sg = sk.sign(s, &idv).ok()?;
            match Option::<Vec<u8>>::from(ct.decrypt(&sg)) { Some(p) if p == m => {}, Some(_) => return Some(format!("opens to another message (len {})", l)), None => return Some(format!("the signature over the identifier does not open the ciphertext (message length {}, id length {})", l, idv.len())) }
        }}
        return None;
    }
    if kind == "threshold_quorums" {
        // the signature recombined from EXACTLY t partial signatures (every quorum of a 3-of-5 and a 2-of-3 sharing,
        // every order of the first quorum) opens the ciphertext; fewer than t shares do not
        use rand_core::SeedableRng;
        if s == SignatureSchemes::MessageAugmentation { return None; }     // shares cannot sign under this scheme
        let m = b"threshold time lock".to_vec();
        let ct = pk.encrypt_time_lock(s, &m, &id).ok()?;
        for (t, n) in [(3usize, 5usize), (2, 3)] {
            let sh = sk.split_with_rng(t, n, rand_chacha::ChaCha20Rng::from_seed([11u8; 32])).ok()?;
            let ps: Vec<SignatureShare<C>> = sh.iter().map(|x| x.sign(s, &id).unwrap()).collect();
            let idx: Vec<usize> = (0..n).collect();
            let mut quorums: Vec<Vec<usize>> = vec![];
            if t == 3 { for a in 0..n { for b in 0..n { for c3 in 0..n { if a != b && b != c3 && a != c3 { quorums.push(vec![a, b, c3]); } } } } }
            else { for a in 0..n { for b in 0..n { if a != b { quorums.push(vec![a, b]); } } } }
            let _ = idx;
            for q in quorums {
                let sel: Vec<SignatureShare<C>> = q.iter().map(|&i| ps[i].clone()).collect();
                let sg = match Signature::<C>::from_shares(&sel) { Ok(x) => x, Err(e) => return Some(format!("{} partial signatures of a {}-of-{} sharing (participants {:?}) are refused: {}", t, t, n, q, e)) };
                match Option::<Vec<u8>>::from(ct.decrypt(&sg)) { Some(p) if p == m => {}, _ => return Some(format!("the signature recombined from exactly {} of {} shares (participants {:?}) does not open the ciphertext", t, n, q)) }
            }
            if let Ok(sg) = Signature::<C>::from_shares(&ps[..t - 1]) { if Option::<Vec<u8>>::from(ct.decrypt(&sg)).is_some() { return Some(format!("{} shares of a {}-of-{} sharing open the ciphertext", t - 1, t, n)); } }
        }
        return None;
    }
    let m = b"the launch codes".to_vec();
    let ct = pk.encrypt_time_lock(s, &m, &id).ok()?;
    let gp = <C as Pairing>::PublicKey::generator();
    let opens_to = |ct: &TimeCryptCiphertext<C>, sg: &Signature<C>| Option::<Vec<u8>>::from(ct.decrypt(sg));
    match kind {
        "wrong_id" => if opens_to(&ct, &sk.sign(s, b"epoch 43").ok()?).is_some() { Some("signature over another identifier opens it".into()) } else { None },
        "wrong_key" => if opens_to(&ct, &keys[4].sign(s, &id).ok()?).is_some() { Some("another key's signature opens it".into()) } else { None },
        "wrong_scheme" => { for s2 in schemes() { if s2 != s { if opens_to(&ct, &sk.sign(s2, &id).ok()?).is_some() { return Some(format!("signature under {} opens a {} ciphertext", scheme_name(s2), scheme_name(s))); } } } None }
        "identity_sig" => if opens_to(&ct, &mk::<C>(s, <C as Pairing>::Signature::identity())).is_some() { Some("identity signature opens it".into()) } else { None },
        "flip_u" => { let mut t = ct.clone(); t.u = t.u + gp; if opens_to(&t, &sig).is_some() { Some("altered U still opens".into()) } else { None } }
        "flip_v" => { for i in 0..32 { let mut t = ct.clone(); t.v[i] ^= 1; if opens_to(&t, &sig).is_some() { return Some(format!("bit flip in v[{}] still opens", i)); } } None }
        "flip_w_prefix_all_bits" => {
            // every single-bit flip in the bytes of w that cover the length prefix (and the first message
            // bytes) must yield NOTHING — for one- and two-byte prefixes, ordinary and all-zero messages
            let mut found: Vec<String> = vec![];
            for l in [0usize, 1, 2, 30, 31, 33, 127, 128, 129, 130, 200] { for fill in [0u8, 0x5a] {
                let mm: Vec<u8> = (0..l).map(|i| if fill == 0 { 0 } else { (i * 7 + 1) as u8 | 1 }).collect();
                let c2 = pk.encrypt_time_lock(s, &mm, &id).ok()?;
                let plen = if l < 128 { 1 } else { 2 };
                let covered = (plen + l).min(plen + 2).min(c2.w.len());
                for i in 0..covered { for b in 0..8 { let mut t = c2.clone(); t.w[i] ^= 1 << b;
                    if let Some(p) = opens_to(&t, &sig) { found.push(format!("bit {} of w[{}] flipped (message of {} bytes {:#x}..): opens to {}", b, i, l, fill, if p == mm { "the ORIGINAL message instead of nothing" } else { "a DIFFERENT message" })); } } }
            }}
            if found.is_empty() { None } else { found.truncate(6); Some(found.join("; ")) }
        }
        "flip_w_prefix" => { for i in 0..(1 + m.len()) { let mut t = ct.clone(); t.w[i] ^= 0x10; if let Some(p) = opens_to(&t, &sig) { return Some(format!("bit flip in w[{}] (length prefix / message) opens to {:?}", i, p)); } } None }
        "flip_padding" => { let mut t = ct.clone(); let n = t.w.len(); t.w[n - 1] ^= 1; match opens_to(&t, &sig) { Some(p) if p != m => Some("padding flip yields a DIFFERENT message".into()), _ => None } }
        "extend_padding" => { let mut t = ct.clone(); t.w.push(7); match opens_to(&t, &sig) { Some(p) if p != m => Some("extension yields a DIFFERENT message".into()), _ => None } }
        _ => { let mut t = ct.clone(); t.w = vec![]; let _ = opens_to(&t, &sig); None }
    }
}

fn thr_signcrypt<C: BlsSignatureImpl + PartialEq + Copy>(c: &Value, keys: &[SecretKey<C>]) -> Option<String> {
    use rand_core::SeedableRng;
    let s = scheme_of(&c["scheme"]);
    let sk = &keys[3];
    let pk = sk.public_key();
    let m = b"threshold secret".to_vec();
    let ct = pk.sign_crypt(s, &m);
    let shares = sk.split_with_rng(2, 3, rand_chacha::ChaCha20Rng::from_seed([5u8; 32])).ok()?;
    let ds: Vec<SignDecryptionShare<C>> = shares.iter().map(|x| ct.create_decryption_share(x).unwrap()).collect();
    let pks: Vec<PublicKeyShare<C>> = shares.iter().map(|x| x.public_key().unwrap()).collect();
    match c["kind"].as_str().unwrap() {
        "share_verifies" => { for i in 0..3 { if let Err(e) = ds[i].verify(&pks[i], &ct) { return Some(format!("honest decryption share {} of a {} ciphertext rejected: {}", i + 1, scheme_name(s), e)); } } None }
        "other_participant" => if ds[0].verify(&pks[1], &ct).is_ok() { Some("share accepted against another participant's key share".into()) } else { None },
        "other_ciphertext" => { let ct2 = pk.sign_crypt(s, b"another"); if ds[0].verify(&pks[0], &ct2).is_ok() { Some("share accepted for another ciphertext".into()) } else { None } }
        "t_shares_decrypt" => match Option::<Vec<u8>>::from(ct.decrypt_with_shares(&ds[..2])) { Some(p) if p == m => None, _ => Some("2 of 3 shares do not decrypt".into()) },
        _ => { let k = SignCryptDecryptionKey::<C>::from_shares(&ds[1..]).ok()?; match Option::<Vec<u8>>::from(k.decrypt(&ct)) { Some(p) if p == m => None, _ => Some("combined decryption key does not decrypt".into()) } }
    }
}

fn elgamal<C: BlsSignatureImpl + PartialEq + Copy>(c: &Value, keys: &[SecretKey<C>]) -> Option<String> {
    let sk = &keys[3]; let pk = sk.public_key();
    let m1 = &keys[0]; let m2 = &keys[2];
    let g = <C as BlsElGamal>::message_generator();
    let one = <<C as Pairing>::PublicKey as Group>::Scalar::ONE;
    let gp = <C as Pairing>::PublicKey::generator();
    match c["kind"].as_str().unwrap() {
        "decrypt" => { for m in [m1, m2, &keys[4]] { let ct = pk.encrypt_key_el_gamal(m).ok()?; if <C as BlsElGamal>::decrypt(sk.0, ct.c1, ct.c2) != g * m.0 { return Some("decrypt(encrypt(m)) != m * generator".into()); } } None }
        "homomorphic" => { let a = pk.encrypt_key_el_gamal(m1).ok()?; let b = pk.encrypt_key_el_gamal(m2).ok()?; let s = a + b; if <C as BlsElGamal>::decrypt(sk.0, s.c1, s.c2) != g * (m1.0 + m2.0) { Some("sum of ciphertexts does not decrypt to the sum".into()) } else { None } }
        "homomorphic_ops" => {
            // every operator form must give the component-wise sum
            let a = pk.encrypt_key_el_gamal(m1).ok()?; let b = pk.encrypt_key_el_gamal(m2).ok()?;
            let want = a + b;
            if want.c1 != a.c1 + b.c1 || want.c2 != a.c2 + b.c2 { return Some("a + b is not the component-wise sum".into()); }
            if &a + &b != want { return Some("&a + &b differs from a + b".into()); }
            if a + &b != want { return Some("a + &b differs from a + b".into()); }
            if &a + b != want { return Some("&a + b differs from a + b".into()); }
            let mut x = a; x += b; if x != want { return Some("a += b differs from a + b".into()); }
            let mut y = a; y += &b; if y != want { return Some("a += &b differs from a + b".into()); }
            if want.decrypt(sk) != g * (m1.0 + m2.0) { return Some("ElGamalCiphertext::decrypt of the sum is not the sum of the plaintexts".into()); }
            None
        }
        "homomorphic_k16" => {
            let mut acc = pk.encrypt_key_el_gamal(m1).ok()?; let mut sum = m1.0;
            for i in 0..15 { let m = &keys[i % keys.len()]; let ct = pk.encrypt_key_el_gamal(m).ok()?; if i % 2 == 0 { acc += &ct; } else { acc = &acc + &ct; } sum += m.0; }
            if <C as BlsElGamal>::decrypt(sk.0, acc.c1, acc.c2) != g * sum { Some("sum of 16 ciphertexts does not decrypt to the sum".into()) } else { None }
        }
        "key_from_shares" => {
            use rand_core::SeedableRng;
            let ct = pk.encrypt_key_el_gamal(m1).ok()?;
            let sh = sk.split_with_rng(2, 3, rand_chacha::ChaCha20Rng::from_seed([5u8; 32])).ok()?;
            let ds: Vec<ElGamalDecryptionShare<C>> = sh.iter().map(|s| <C as BlsSignatureCore>::public_key_share_with_generator(&s.0, ct.c1).map(ElGamalDecryptionShare)).collect::<Result<Vec<_>, _>>().ok()?;
            for sub in [&ds[..2], &ds[1..], &ds[..]] {
                match ElGamalDecryptionKey::<C>::from_shares(sub) { Ok(k) => if k.decrypt(&ct) != g * m1.0 { return Some("decryption key recombined from shares decrypts to another value".into()); }, Err(e) => return Some(format!("ElGamalDecryptionKey::from_shares failed: {}", e)) }
            }
            None
        }
        kind => {
            let p = match pk.encrypt_key_el_gamal_with_proof(m1) { Ok(p) => p, Err(e) => return Some(format!("proof generation failed: {}", e)) };
            let mut t = p;
            match kind {
                "proof_ok" => { if let Err(e) = p.verify(pk) { return Some(format!("honest proof rejected: {}", e)); } return match p.verify_and_decrypt(sk) { Ok(x) if x == g * m1.0 => None, _ => Some("verify_and_decrypt of an honest proof fails".into()) }; }
                "tamper_c1" => t.ciphertext.c1 = t.ciphertext.c1 + gp,
                "tamper_c2" => t.ciphertext.c2 = t.ciphertext.c2 + gp,
                "tamper_mp" => t.message_proof = t.message_proof + one,
                "tamper_bp" => t.blinder_proof = t.blinder_proof + one,
                "tamper_ch" => t.challenge = t.challenge + one,
                "wrong_pk" => return if p.verify(keys[4].public_key()).is_ok() { Some("proof verifies for another key".into()) } else { None },
                "wrong_sk" => return if p.verify_and_decrypt(&keys[4]).is_ok() { Some("verify_and_decrypt with another key succeeds".into()) } else { None },
                _ => return if PublicKey::<C>(<C as Pairing>::PublicKey::identity()).encrypt_key_el_gamal_with_proof(m1).is_ok() { Some("encryption with proof to the identity key accepted".into()) } else { None },
            }
            if t.verify(pk).is_ok() { Some(format!("{}: altered proof accepted", kind)) } else { None }
        }
    }
}

fn shares<C: BlsSignatureImpl + PartialEq + Copy>(c: &Value, keys: &[SecretKey<C>]) -> Option<String> {
    use rand_core::SeedableRng;
    let s = scheme_of(&c["scheme"]);
    let t = c["t"].as_u64().unwrap() as usize; let n = c["n"].as_u64().unwrap() as usize;
    let sk = &keys[3]; let pk = sk.public_key();
    let m = b"threshold message".to_vec();
    let rng = || rand_chacha::ChaCha20Rng::from_seed([9u8; 32]);
    let kind = c["kind"].as_str().unwrap();
    if kind == "bad_params" {
        for (tt, nn) in [(0usize, 3usize), (1, 3), (4, 3), (2, 256)] { if sk.split_with_rng(tt, nn, rng()).is_ok() { return Some(format!("split accepted threshold {} of {}", tt, nn)); } }
        return None;
    }
    let sh = match sk.split_with_rng(t, n, rng()) { Ok(x) => x, Err(e) => return Some(format!("split({}, {}) failed: {}", t, n, e)) };
    let ps: Vec<SignatureShare<C>> = sh.iter().map(|x| x.sign(s, &m).unwrap()).collect();
    let pks: Vec<PublicKeyShare<C>> = sh.iter().map(|x| x.public_key().unwrap()).collect();
    let whole = sk.sign(s, &m).ok()?;
    match kind {
        "recombine" => {
            // every window of t consecutive shares, and all n
            for start in 0..=(n - t) { let w = start..start + t;
                if SecretKey::<C>::combine(&sh[w.clone()]).ok()? != *sk { return Some("t shares do not recombine to the key".into()); }
                if PublicKey::<C>::from_shares(&pks[w.clone()]).ok()? != pk { return Some("public-key shares do not recombine to the public key".into()); }
                let sg = Signature::<C>::from_shares(&ps[w.clone()]).ok()?;
                if Vec::<u8>::from(&sg) != Vec::<u8>::from(&whole) { return Some("partial signatures do not recombine byte-for-byte to the whole-key signature".into()); }
            }
            let mut rev = ps.clone(); rev.reverse();
            match Signature::<C>::from_shares(&rev) { Ok(x) => if x != whole { return Some("recombination depends on share order".into()); }, Err(e) => return Some(format!("all {} partial signatures are refused: {}", n, e)) }
            match PublicKey::<C>::from_shares(&pks) { Ok(x) => if x != pk { return Some("all public-key shares do not recombine to the public key".into()); }, Err(e) => return Some(format!("all {} public-key shares are refused: {}", n, e)) }
            match SecretKey::<C>::combine(&sh) { Ok(x) => if x != *sk { return Some("all shares do not recombine to the key".into()); }, Err(e) => return Some(format!("all {} key shares are refused: {}", n, e)) }
            None
        }
        "partial_verify" => { for i in 0..n { if let Err(e) = ps[i].verify(&pks[i], &m) { return Some(format!("partial signature {} rejected by its own key share: {}", i + 1, e)); } } None }
        "other_share" => if ps[0].verify(&pks[1], &m).is_ok() { Some("partial signature accepted by another participant's key share".into()) } else { None },
        "too_few" => { if t > 2 { if let Ok(k) = SecretKey::<C>::combine(&sh[..t - 1]) { if k == *sk { return Some("fewer than t shares yielded the key".into()); } } if let Ok(sg) = Signature::<C>::from_shares(&ps[..t - 1]) { if sg == whole { return Some("fewer than t partial signatures yielded the signature".into()); } } } None }
        "duplicate" => { let d = vec![ps[0], ps[0]]; if Signature::<C>::from_shares(&d).is_ok() { Some("duplicated share accepted".into()) } else { None } }
        "single" => if Signature::<C>::from_shares(&ps[..1]).is_ok() { Some("single share accepted".into()) } else { None },
        "empty" => { let r = crate::guarded(|| Signature::<C>::from_shares(&[]).is_ok()); match r { Ok(true) => Some("empty share set accepted".into()), Ok(false) => None, Err(p) => Some(format!("empty share set panicked: {}", p)) } }
        "zero_id" => {
            // a share whose identifier byte is zero, in every position
            for i in 0..n { let mut raw: Vec<u8> = Vec::from(&sh[i]); raw[0] = 0; if let Ok(z) = SecretKeyShare::<C>::try_from(raw.as_slice()) { let mut x = sh.clone(); x[i] = z; if SecretKey::<C>::combine(&x).is_ok() { return Some(format!("zero identifier at position {} accepted", i)); } } }
            None
        }
        "duplicate_any" => {
            for i in 0..n { for j in 0..n { if i != j { let mut x = ps.clone(); x[j] = ps[i]; if Signature::<C>::from_shares(&x).is_ok() { return Some(format!("share {} repeated at position {} accepted", i, j)); }
                let mut y = pks.clone(); y[j] = pks[i]; if PublicKey::<C>::from_shares(&y).is_ok() { return Some(format!("public-key share {} repeated at position {} accepted", i, j)); }
                let mut z = sh.clone(); z[j] = sh[i].clone(); if SecretKey::<C>::combine(&z).is_ok() { return Some(format!("secret share {} repeated at position {} accepted by SecretKey::combine", i, j)); } } } }
            // a repeated share INSERTED (adjacent and non-adjacent), the rest of the set complete
            for i in 0..n { for at in 0..=n { let mut z = sh.clone(); z.insert(at, sh[i].clone()); if SecretKey::<C>::combine(&z).is_ok() { return Some(format!("secret share {} listed twice (inserted at {}) accepted by SecretKey::combine", i, at)); }
                let mut x = ps.clone(); x.insert(at, ps[i]); if Signature::<C>::from_shares(&x).is_ok() { return Some(format!("partial signature {} listed twice (inserted at {}) accepted", i, at)); }
                let mut y = pks.clone(); y.insert(at, pks[i]); if PublicKey::<C>::from_shares(&y).is_ok() { return Some(format!("public-key share {} listed twice (inserted at {}) accepted", i, at)); } } }
            None
        }
        "subsets" => {
            // every subset of every size (n <= 7): >= t recombine to the whole-key values, order-independent
            if n > 7 { return None; }
            for mask in 1u32..(1 << n) {
                let idx: Vec<usize> = (0..n).filter(|i| mask & (1 << i) != 0).collect();
                let k: Vec<SecretKeyShare<C>> = idx.iter().map(|&i| sh[i].clone()).collect();
                let g: Vec<SignatureShare<C>> = idx.iter().rev().map(|&i| ps[i]).collect();
                let q: Vec<PublicKeyShare<C>> = idx.iter().map(|&i| pks[i]).collect();
                if idx.len() >= t {
                    match SecretKey::<C>::combine(&k) { Ok(x) if x == *sk => {}, _ => return Some(format!("subset {:?} of the secret shares does not recombine to the key", idx)) }
                    match Signature::<C>::from_shares(&g) { Ok(x) if Vec::<u8>::from(&x) == Vec::<u8>::from(&whole) => {}, _ => return Some(format!("subset {:?} of the partial signatures does not recombine to the whole-key signature", idx)) }
                    match PublicKey::<C>::from_shares(&q) { Ok(x) if x == pk => {}, _ => return Some(format!("subset {:?} of the public-key shares does not recombine to the public key", idx)) }
                } else if idx.len() >= 2 {
                    if let Ok(x) = SecretKey::<C>::combine(&k) { if x == *sk { return Some(format!("subset {:?} (fewer than t) yielded the key", idx)); } }
                    if let Ok(x) = Signature::<C>::from_shares(&g) { if x == whole { return Some(format!("subset {:?} (fewer than t) yielded the signature", idx)); } }
                } else if Signature::<C>::from_shares(&g).is_ok() || SecretKey::<C>::combine(&k).is_ok() || PublicKey::<C>::from_shares(&q).is_ok() { return Some("a single share was accepted".into()); }
            }
            None
        }
        _ => {
            // a share of another scheme at EVERY position of every prefix of length >= 2
            let other = if s == SignatureSchemes::Basic { SignatureSchemes::ProofOfPossession } else { SignatureSchemes::Basic };
            for len in 2..=n { for i in 0..len { let mut x = ps[..len].to_vec(); x[i] = sh[i].sign(other, &m).unwrap(); if Signature::<C>::from_shares(&x).is_ok() { return Some(format!("mixed-scheme shares accepted (other scheme at position {} of {})", i, len)); } } }
            // two blocks: the scheme changes at every possible index
            for cut in 1..n { let x: Vec<SignatureShare<C>> = (0..n).map(|i| if i < cut { ps[i] } else { sh[i].sign(other, &m).unwrap() }).collect(); if Signature::<C>::from_shares(&x).is_ok() { return Some(format!("mixed-scheme shares accepted (scheme changes at index {} of {})", cut, n)); } }
            None
        }
    }
}

/// a proof of possession that arrives as bytes, shifted by a point of the curve OUTSIDE the prime-order group (order
/// dividing the cofactor): the pairing equation cannot see the shift, only the subgroup check of the decoder stops it
fn pop_low_order_g1() -> Option<String> {
    let mut t = None;
    for x in 1u8..=255 {
        let mut enc = [0u8; 48]; enc[0] = 0x80; enc[47] = x;
        let p: Option<G1Projective> = G1Projective::from_compressed_unchecked(&enc).into();
        if let Some(p) = p { if !bool::from(G1Affine::from(p).is_torsion_free()) { let q = p * (-Scalar::ONE) + p; if !bool::from(q.is_identity()) { t = Some(q); break; } } }
    }
    let t = t?;
    for seed in [b"low order 1".as_slice(), b"low order 2".as_slice()] {
        let sk = SecretKey::<G1>::from_hash(seed); let pk = sk.public_key();
        let pop = sk.proof_of_possession().ok()?;
        let altered = (pop.0 + t).to_compressed();
        if let Ok(p) = ProofOfPossession::<G1>::try_from(altered.as_slice()) {
            if p.verify(pk).is_ok() { return Some("a proof of possession shifted by a low-order point (sent as bytes) decodes and verifies".into()); }
        }
    }
    None
}
fn pop_low_order_g2() -> Option<String> {
    let mut t = None;
    for x in 1u8..=255 {
        let mut enc = [0u8; 96]; enc[0] = 0x80; enc[95] = x;
        let p: Option<G2Projective> = G2Projective::from_compressed_unchecked(&enc).into();
        if let Some(p) = p { if !bool::from(G2Affine::from(p).is_torsion_free()) { let q = p * (-Scalar::ONE) + p; if !bool::from(q.is_identity()) { t = Some(q); break; } } }
    }
    let t = t?;
    for seed in [b"low order 1".as_slice(), b"low order 2".as_slice()] {
        let sk = SecretKey::<G2>::from_hash(seed); let pk = sk.public_key();
        let pop = sk.proof_of_possession().ok()?;
        let altered = (pop.0 + t).to_compressed();
        if let Ok(p) = ProofOfPossession::<G2>::try_from(altered.as_slice()) {
            if p.verify(pk).is_ok() { return Some("a proof of possession shifted by a low-order point (sent as bytes) decodes and verifies".into()); }
        }
    }
    None
}

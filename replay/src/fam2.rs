//! second group of witness families: byte decoders (C15/C16/C17), crafted payload prefixes (C17),
//! key-generation entry points (C03), freshness across calls and threads (C20)
use blsful::inner_types::*;
use blsful::*;
use serde_json::{json, Value};

type G1 = Bls12381G1Impl;
type G2 = Bls12381G2Impl;

pub fn candidates(prop: &str) -> Vec<Value> {
    let mut v = vec![];
    match prop {
        "C16" => {
            for g in ["G1", "G2"] { for kind in ["non_subgroup", "off_curve", "flags", "lengths", "zero_scalars", "bad_share_payload", "json_lengths"] {
                v.push(json!({"call": "decoders", "group": g, "kind": kind}));
            }}
        }
        "C04" => {
            for g in ["G1", "G2"] { for sch in ["Basic", "MessageAugmentation", "ProofOfPossession"] { for kind in ["tc_forged_id_sig", "tc_id_u", "sc_id_points", "eg_id_pk"] {
                v.push(json!({"call": "identity_payload", "group": g, "scheme": sch, "kind": kind}));
            }}}
        }
        "C15" => {
            for g in ["G1", "G2"] { for kind in ["point_bytes", "commitment_scalars", "containers", "container_forms", "large_payloads", "schemes", "serde_forms"] {
                v.push(json!({"call": "roundtrip", "group": g, "kind": kind}));
            }}
        }
        "C17" => {
            for g in ["G1", "G2"] { for kind in ["sc_prefix", "tc_short", "every_length", "share_sets", "accessors"] {
                v.push(json!({"call": "total", "group": g, "kind": kind}));
            }}
            for g in ["G1", "G2"] { v.push(json!({"call": "decoders", "group": g, "kind": "json_no_panic"})); }
        }
        "C03" => {
            for g in ["G1", "G2"] { for kind in ["from_hash_entry_points", "keygen_reference"] {
                v.push(json!({"call": "keygen", "group": g, "kind": kind}));
            }}
        }
        "C18" | "C11" | "C13" => {
            for g in ["G1", "G2"] { for sch in ["Basic", "MessageAugmentation", "ProofOfPossession"] { for kind in ["sc_lib_to_ref", "sc_ref_to_lib", "tc_lib_to_ref", "pok_challenge_ref"] {
                v.push(json!({"call": "interop", "group": g, "scheme": sch, "kind": kind}));
            }}}
            if prop == "C13" { for g in ["G1", "G2"] { for sch in ["Basic", "MessageAugmentation", "ProofOfPossession"] { for kind in ["tc_forged_id_sig", "tc_id_u"] {
                v.push(json!({"call": "identity_payload", "group": g, "scheme": sch, "kind": kind}));
            }}}}
            if prop == "C18" { for g in ["G1", "G2"] { for kind in ["eg_transcript_default_generator", "eg_transcript_custom_generator", "json_layout"] {
                v.push(json!({"call": "interop", "group": g, "scheme": "Basic", "kind": kind}));
            }}}
        }
        "C20" => {
            for g in ["G1", "G2"] { for kind in ["sequence", "threads"] {
                v.push(json!({"call": "fresh", "group": g, "kind": kind}));
            }}
        }
        _ => {}
    }
    v
}

macro_rules! by_group {
    ($c:expr, $f:ident) => {
        if $c["group"] == "G1" { $f::<G1>($c) } else { $f::<G2>($c) }
    };
}

pub fn run(c: &Value) -> Option<Option<String>> {
    Some(match c["call"].as_str().unwrap_or("") {
        "decoders" => by_group!(c, decoders),
        "roundtrip" => by_group!(c, roundtrip),
        "total" => by_group!(c, total),
        "keygen" => by_group!(c, keygen),
        "fresh" => by_group!(c, fresh),
        "interop" => by_group!(c, interop),
        "identity_payload" => by_group!(c, identity_payload),
        _ => return None,
    })
}

// ----- malformed point encodings ------------------------------------------------------------------
fn g1_bad(kind: &str) -> Vec<u8> {
    for ctr in 0u16..=u16::MAX {
        let mut b = [0u8; 48];
        b[0] = 0x80; b[1] = 0x01; b[46] = (ctr >> 8) as u8; b[47] = ctr as u8;
        let on: Option<G1Affine> = G1Affine::from_compressed_unchecked(&b).into();
        match (kind, on) {
            ("non_subgroup", Some(p)) => if !bool::from(p.is_torsion_free()) { return b.to_vec(); },
            ("off_curve", None) => return b.to_vec(),
            _ => {}
        }
    }
    vec![]
}
fn g2_bad(kind: &str) -> Vec<u8> {
    for ctr in 0u16..=u16::MAX {
        let mut b = [0u8; 96];
        b[0] = 0x80; b[1] = 0x01; b[94] = (ctr >> 8) as u8; b[95] = ctr as u8;
        let on: Option<G2Affine> = G2Affine::from_compressed_unchecked(&b).into();
        match (kind, on) {
            ("non_subgroup", Some(p)) => if !bool::from(p.is_torsion_free()) { return b.to_vec(); },
            ("off_curve", None) => return b.to_vec(),
            _ => {}
        }
    }
    vec![]
}
/// malformed encodings of the group with the given compressed length
fn bad_point(len: usize, kind: &str, good: &[u8]) -> Vec<u8> {
    match kind {
        "flags" => { let mut b = good.to_vec(); b[0] &= 0x7f; b }               // compression flag cleared
        _ => if len == 48 { g1_bad(kind) } else { g2_bad(kind) },
    }
}
/// every position at which `needle` occurs in `hay`
fn occurrences(hay: &[u8], needle: &[u8]) -> Vec<usize> {
    if needle.is_empty() || hay.len() < needle.len() { return vec![]; }
    (0..=hay.len() - needle.len()).filter(|&i| &hay[i..i + needle.len()] == needle).collect()
}
fn splice(hay: &[u8], at: usize, with: &[u8]) -> Vec<u8> { let mut v = hay.to_vec(); v[at..at + with.len()].copy_from_slice(with); v }

struct Sample<C: BlsSignatureImpl + PartialEq + Copy> {
    sk: SecretKey<C>, pk: PublicKey<C>, sig: Signature<C>, pop: ProofOfPossession<C>, pk_bytes: Vec<u8>, sig_bytes: Vec<u8>,
    shares: Vec<SecretKeyShare<C>>,
}
fn sample<C: BlsSignatureImpl + PartialEq + Copy + Send + Sync + 'static>() -> Sample<C> {
    use rand_core::SeedableRng;
    let sk = SecretKey::<C>::from_hash(b"decoder witness key");
    let pk = sk.public_key();
    let sig = sk.sign(SignatureSchemes::ProofOfPossession, b"decoder witness message").unwrap();
    let pop = sk.proof_of_possession().unwrap();
    let pk_bytes: Vec<u8> = Vec::from(&pk);
    let sig_bytes: Vec<u8> = Vec::from(&ProofOfPossession::<C>(*sig.as_raw_value()));
    let shares = sk.split_with_rng(2, 3, rand_chacha::ChaCha20Rng::from_seed([3u8; 32])).unwrap();
    Sample { sk, pk, sig, pop, pk_bytes, sig_bytes, shares }
}

/// (type name, valid encoding, decoder returning "accepted?")
fn point_containers<C: BlsSignatureImpl + PartialEq + Copy + Send + Sync + 'static>(s: &Sample<C>) -> Vec<(&'static str, Vec<u8>, Box<dyn Fn(&[u8]) -> bool>)> {
    let m = b"decoder witness message";
    let sig2 = s.sk.sign(SignatureSchemes::ProofOfPossession, b"second").unwrap();
    let agg = AggregateSignature::<C>::from_signatures(&[s.sig, sig2]).unwrap();
    let ms = MultiSignature::<C>::from_signatures(&[s.sig, sig2]).unwrap();
    let mpk = MultiPublicKey::<C>::from_public_keys(&[s.pk, s.pk]);
    let (comm, x) = ProofCommitment::<C>::generate(m, s.sig).unwrap();
    let y = ProofCommitmentChallenge::<C>::from_hash(b"challenge");
    let pok = comm.finalize(x, y, s.sig).unwrap();
    let pokt = ProofOfKnowledgeTimestamp::<C>::generate(m, s.sig).unwrap();
    let sc = s.pk.sign_crypt(SignatureSchemes::Basic, m);
    let dk = s.sk.sign_decryption_key::<Vec<u8>>(&sc);
    let tc = s.pk.encrypt_time_lock(SignatureSchemes::Basic, m, b"id").unwrap();
    let eg = s.pk.encrypt_key_el_gamal(&s.sk).unwrap();
    let egp = s.pk.encrypt_key_el_gamal_with_proof(&s.sk).unwrap();
    vec![
        ("PublicKey", Vec::from(&s.pk), Box::new(|b: &[u8]| PublicKey::<C>::try_from(b).is_ok())),
        ("MultiPublicKey", Vec::from(&mpk), Box::new(|b: &[u8]| MultiPublicKey::<C>::try_from(b).is_ok())),
        ("ProofOfPossession", Vec::from(&s.pop), Box::new(|b: &[u8]| ProofOfPossession::<C>::try_from(b).is_ok())),
        ("Signature", Vec::from(&s.sig), Box::new(|b: &[u8]| Signature::<C>::try_from(b).is_ok())),
        ("AggregateSignature", Vec::from(&agg), Box::new(|b: &[u8]| AggregateSignature::<C>::try_from(b).is_ok())),
        ("MultiSignature", Vec::from(&ms), Box::new(|b: &[u8]| MultiSignature::<C>::try_from(b).is_ok())),
        ("ProofCommitment", Vec::from(&comm), Box::new(|b: &[u8]| ProofCommitment::<C>::try_from(b).is_ok())),
        ("ProofOfKnowledge", Vec::from(&pok), Box::new(|b: &[u8]| ProofOfKnowledge::<C>::try_from(b).is_ok())),
        ("ProofOfKnowledgeTimestamp", Vec::from(&pokt), Box::new(|b: &[u8]| ProofOfKnowledgeTimestamp::<C>::try_from(b).is_ok())),
        ("SignCryptCiphertext", Vec::from(&sc), Box::new(|b: &[u8]| SignCryptCiphertext::<C>::try_from(b).is_ok())),
        ("SignCryptDecryptionKey", Vec::from(&dk), Box::new(|b: &[u8]| SignCryptDecryptionKey::<C>::try_from(b).is_ok())),
        ("TimeCryptCiphertext", Vec::from(&tc), Box::new(|b: &[u8]| TimeCryptCiphertext::<C>::try_from(b).is_ok())),
        ("ElGamalCiphertext", Vec::from(&eg), Box::new(|b: &[u8]| ElGamalCiphertext::<C>::try_from(b).is_ok())),
        ("ElGamalProof", Vec::from(&egp), Box::new(|b: &[u8]| ElGamalProof::<C>::try_from(b).is_ok())),
    ]
}

fn decoders<C: BlsSignatureImpl + PartialEq + Copy + Send + Sync + serde::Serialize + serde::de::DeserializeOwned + 'static>(c: &Value) -> Option<String> {
    let s = sample::<C>();
    let kind = c["kind"].as_str().unwrap();
    match kind {
        "non_subgroup" | "off_curve" | "flags" => {
            for (name, enc, accepts) in point_containers(&s) {
                if !accepts(&enc) { return Some(format!("{}: the valid encoding is rejected", name)); }
                // replace every point of the encoding (every place where a known point encoding occurs)
                for len in [48usize, 96] {
                    let mut pos: Vec<usize> = vec![];
                    // any window that decodes as a point of this group is a point position
                    if enc.len() >= len { for i in 0..=enc.len() - len {
                        let w = &enc[i..i + len];
                        let ok = if len == 48 { let mut a = [0u8; 48]; a.copy_from_slice(w); bool::from(G1Affine::from_compressed(&a).is_some()) } else { let mut a = [0u8; 96]; a.copy_from_slice(w); bool::from(G2Affine::from_compressed(&a).is_some()) };
                        if ok && w[0] & 0x80 != 0 { pos.push(i); }
                    }}
                    for i in pos {
                        let bad = bad_point(len, kind, &enc[i..i + len]);
                        if bad.is_empty() { continue; }
                        if accepts(&splice(&enc, i, &bad)) { return Some(format!("{}: accepted a {} point encoding at byte offset {}", name, kind, i)); }
                    }
                }
            }
            None
        }
        "lengths" => {
            // exact-length types reject every other length (truncation and extension of a valid encoding)
            let x = ProofCommitmentSecret::<C>(s.sk.0);
            let y = ProofCommitmentChallenge::<C>(s.sk.0);
            let (comm, _) = ProofCommitment::<C>::generate(b"m", s.sig).unwrap();
            let exact: Vec<(&str, Vec<u8>, Box<dyn Fn(&[u8]) -> bool>)> = vec![
                ("PublicKey", Vec::from(&s.pk), Box::new(|b: &[u8]| PublicKey::<C>::try_from(b).is_ok())),
                ("MultiPublicKey", Vec::from(&MultiPublicKey::<C>::from_public_keys(&[s.pk, s.pk])), Box::new(|b: &[u8]| MultiPublicKey::<C>::try_from(b).is_ok())),
                ("ProofOfPossession", Vec::from(&s.pop), Box::new(|b: &[u8]| ProofOfPossession::<C>::try_from(b).is_ok())),
                ("ProofCommitment", Vec::from(&comm), Box::new(|b: &[u8]| ProofCommitment::<C>::try_from(b).is_ok())),
                ("SecretKey", Vec::from(&s.sk), Box::new(|b: &[u8]| SecretKey::<C>::try_from(b).is_ok())),
                ("ProofCommitmentSecret", Vec::from(&x), Box::new(|b: &[u8]| ProofCommitmentSecret::<C>::try_from(b).is_ok())),
                ("ProofCommitmentChallenge", Vec::from(&y), Box::new(|b: &[u8]| ProofCommitmentChallenge::<C>::try_from(b).is_ok())),
                ("SecretKeyEnum(G1)", Vec::from(&SecretKeyEnum::G1(SecretKey::<G1>::from_hash(b"enum key"))), Box::new(|b: &[u8]| SecretKeyEnum::try_from(b).is_ok())),
                ("SecretKeyEnum(G2).from_be_bytes", SecretKeyEnum::G2(SecretKey::<G2>::from_hash(b"enum key")).to_be_bytes(), Box::new(|b: &[u8]| bool::from(SecretKeyEnum::from_be_bytes(b).is_some()))),
                ("SecretKeyEnum(G1).from_le_bytes", SecretKeyEnum::G1(SecretKey::<G1>::from_hash(b"enum key")).to_le_bytes(), Box::new(|b: &[u8]| bool::from(SecretKeyEnum::from_le_bytes(b).is_some()))),
            ];
            for (name, enc, accepts) in exact {
                if !accepts(&enc) { return Some(format!("{}: the valid encoding is rejected", name)); }
                for l in 0..enc.len() { if accepts(&enc[..l]) { return Some(format!("{}: accepted an encoding truncated to {} of {} bytes", name, l, enc.len())); } }
                for extra in 1..4usize { let mut e = enc.clone(); e.extend(std::iter::repeat(0u8).take(extra)); if accepts(&e) { return Some(format!("{}: accepted an encoding extended by {} byte(s)", name, extra)); } }
            }
            // serde_bare containers: every truncation is rejected
            for (name, enc, accepts) in point_containers(&s) { for l in 0..enc.len() { if accepts(&enc[..l]) { return Some(format!("{}: accepted an encoding truncated to {} of {} bytes", name, l, enc.len())); } } }
            None
        }
        "json_lengths" | "json_no_panic" => {
            // human-readable documents of the share containers: every hex run cut short or extended is refused
            fn variants(doc: &str) -> Vec<String> {
                let b = doc.as_bytes(); let mut out = vec![]; let mut i = 0;
                while i < b.len() {
                    if b[i].is_ascii_hexdigit() { let st = i; while i < b.len() && b[i].is_ascii_hexdigit() { i += 1; }
                        if i - st >= 16 {
                            for cut in [2usize, 4, 16] { out.push(format!("{}{}", &doc[..i - cut], &doc[i..])); out.push(format!("{}{}", &doc[..st], &doc[st + cut..])); }
                            out.push(format!("{}00{}", &doc[..i], &doc[i..])); out.push(format!("{}{}{}", &doc[..i], &doc[st..st + 2], &doc[i..]));
                        }
                    } else { i += 1; }
                }
                out
            }
            let sh = &s.shares[0];
            let pks = sh.public_key().ok()?;
            let ss = sh.sign(SignatureSchemes::Basic, b"m").ok()?;
            let sc = s.pk.sign_crypt(SignatureSchemes::Basic, b"m");
            let ds = sc.create_decryption_share(sh).ok()?;
            let docs: Vec<(&str, String, Box<dyn Fn(&str) -> bool>)> = vec![
                ("SecretKeyShare", serde_json::to_string(sh).ok()?, Box::new(|d: &str| serde_json::from_str::<SecretKeyShare<C>>(d).is_ok())),
                ("PublicKeyShare", serde_json::to_string(&pks).ok()?, Box::new(|d: &str| serde_json::from_str::<PublicKeyShare<C>>(d).is_ok())),
                ("SignatureShare", serde_json::to_string(&ss).ok()?, Box::new(|d: &str| serde_json::from_str::<SignatureShare<C>>(d).is_ok())),
                ("SignDecryptionShare", serde_json::to_string(&ds).ok()?, Box::new(|d: &str| serde_json::from_str::<SignDecryptionShare<C>>(d).is_ok())),
            ];
            for (name, doc, accepts) in docs {
                if !accepts(&doc) { return Some(format!("{}: its own JSON document is rejected", name)); }
                if kind == "json_no_panic" { for v in variants(&doc) { let _ = accepts(&v); } for cut in 0..doc.len() { if doc.is_char_boundary(cut) { let _ = accepts(&doc[..cut]); } } let _ = accepts("\"\""); continue; }
                for v in variants(&doc) { if accepts(&v) { return Some(format!("{}: accepted a JSON document whose hex payload is {} characters longer (negative: shorter) than the well-formed one", name, v.len() as i64 - doc.len() as i64)); } }
            }
            None
        }
        "zero_scalars" => {
            let z = [0u8; 32];
            if SecretKey::<C>::try_from(&z[..]).is_ok() || bool::from(SecretKey::<C>::from_be_bytes(&z).is_some()) || bool::from(SecretKey::<C>::from_le_bytes(&z).is_some()) { return Some("zero secret key imported".into()); }
            if ProofCommitmentSecret::<C>::try_from(&z[..]).is_ok() || bool::from(ProofCommitmentSecret::<C>::from_be_bytes(&z).is_some()) || bool::from(ProofCommitmentSecret::<C>::from_le_bytes(&z).is_some()) { return Some("zero commitment secret imported".into()); }
            if ProofCommitmentChallenge::<C>::try_from(&z[..]).is_ok() || bool::from(ProofCommitmentChallenge::<C>::from_be_bytes(&z).is_some()) || bool::from(ProofCommitmentChallenge::<C>::from_le_bytes(&z).is_some()) { return Some("zero challenge imported".into()); }
            let mut t = vec![1u8]; t.extend_from_slice(&z);
            if SecretKeyEnum::try_from(t.as_slice()).is_ok() || bool::from(SecretKeyEnum::from_be_bytes(&t).is_some()) || bool::from(SecretKeyEnum::from_le_bytes(&t).is_some()) { return Some("zero SecretKeyEnum imported".into()); }
            None
        }
        _ => {
            // share containers are validated when used: a payload that is not a subgroup point
            let m = b"share witness";
            let ps: Vec<SignatureShare<C>> = s.shares.iter().map(|x| x.sign(SignatureSchemes::Basic, m).unwrap()).collect();
            let pks: Vec<PublicKeyShare<C>> = s.shares.iter().map(|x| x.public_key().unwrap()).collect();
            for bk in ["non_subgroup", "off_curve"] {
                for i in 0..ps.len() {
                    let enc: Vec<u8> = Vec::from(&ps[i]);
                    let plen = s.sig_bytes.len();
                    let bad = bad_point(plen, bk, &enc[enc.len() - plen..]);
                    if bad.is_empty() { continue; }
                    let e2 = splice(&enc, enc.len() - plen, &bad);
                    if let Ok(bs) = SignatureShare::<C>::try_from(e2.as_slice()) {
                        let mut x = ps.clone(); x[i] = bs;
                        if Signature::<C>::from_shares(&x).is_ok() { return Some(format!("Signature::from_shares accepted a {} payload in share {}", bk, i)); }
                        if bs.verify(&pks[i], m).is_ok() { return Some(format!("a signature share with a {} payload verified", bk)); }
                    }
                    let enc: Vec<u8> = Vec::from(&pks[i]);
                    let plen = s.pk_bytes.len();
                    let bad = bad_point(plen, bk, &enc[enc.len() - plen..]);
                    if bad.is_empty() { continue; }
                    let e2 = splice(&enc, enc.len() - plen, &bad);
                    if let Ok(bp) = PublicKeyShare::<C>::try_from(e2.as_slice()) {
                        let mut y = pks.clone(); y[i] = bp;
                        if PublicKey::<C>::from_shares(&y).is_ok() { return Some(format!("PublicKey::from_shares accepted a {} payload in share {}", bk, i)); }
                        if bp.verify(&ps[i], m).is_ok() { return Some(format!("a public-key share with a {} payload verified a partial signature", bk)); }
                        let ds: Vec<SignDecryptionShare<C>> = y.iter().map(|p| SignDecryptionShare(p.0)).collect();
                        if SignCryptDecryptionKey::<C>::from_shares(&ds).is_ok() { return Some(format!("SignCryptDecryptionKey::from_shares accepted a {} payload", bk)); }
                        let es: Vec<ElGamalDecryptionShare<C>> = y.iter().map(|p| ElGamalDecryptionShare(p.0)).collect();
                        if ElGamalDecryptionKey::<C>::from_shares(&es).is_ok() { return Some(format!("ElGamalDecryptionKey::from_shares accepted a {} payload", bk)); }
                    }
                }
            }
            None
        }
    }
}

fn roundtrip<C: BlsSignatureImpl + PartialEq + Copy + Send + Sync + 'static>(c: &Value) -> Option<String> {
    let s = sample::<C>();
    match c["kind"].as_str().unwrap() {
        "point_bytes" => {
            for key in [b"k1".to_vec(), b"k2".to_vec(), vec![]] {
                let sk = SecretKey::<C>::from_hash(&key); let pk = sk.public_key();
                let v: Vec<u8> = Vec::from(&pk); if v != Vec::<u8>::from(&pk) { return Some("public key bytes are not deterministic".into()); }
                match PublicKey::<C>::try_from(v.as_slice()) { Ok(p) if p == pk => {}, _ => return Some("PublicKey bytes do not round-trip".into()) }
                match PublicKey::<C>::try_from(v.clone()) { Ok(p) if p == pk => {}, _ => return Some("PublicKey Vec<u8> form does not round-trip".into()) }
                match PublicKey::<C>::try_from(&v) { Ok(p) if p == pk => {}, _ => return Some("PublicKey &Vec<u8> form does not round-trip".into()) }
                match PublicKey::<C>::try_from(v.clone().into_boxed_slice()) { Ok(p) if p == pk => {}, _ => return Some("PublicKey Box<[u8]> form does not round-trip".into()) }
                let mpk = MultiPublicKey::<C>::from_public_keys(&[pk, s.pk]); let v: Vec<u8> = Vec::from(&mpk);
                match MultiPublicKey::<C>::try_from(v.as_slice()) { Ok(p) if p == mpk => {}, _ => return Some("MultiPublicKey bytes do not round-trip".into()) }
                let pop = sk.proof_of_possession().unwrap(); let v: Vec<u8> = Vec::from(&pop);
                match ProofOfPossession::<C>::try_from(v.as_slice()) { Ok(p) if p == pop => {}, _ => return Some("ProofOfPossession bytes do not round-trip".into()) }
            }
            None
        }
        "commitment_scalars" => {
            // hashed keys, and scalars with special byte patterns: small, one high byte, bytes that XOR / sum to
            // zero (257 = 0x0101, 0x0202, 0x80 in two places), r - 1, r - 2
            type Sc<C> = <<C as Pairing>::PublicKey as Group>::Scalar;
            let small = |n: u64| Sc::<C>::from(n);
            let mut ks: Vec<Sc<C>> = vec![SecretKey::<C>::from_hash(b"k1").0, SecretKey::<C>::from_hash(b"k2").0];
            for n in [1u64, 2, 255, 256, 257, 0x0202, 0x8080, 0x80_0000_0080, 0xffff, 0x0100_0001, u64::MAX] { ks.push(small(n)); }
            ks.push(-small(1)); ks.push(-small(2));
            for k in ks {
                let sk = SecretKey::<C>(k);
                if Option::<SecretKey<C>>::from(SecretKey::<C>::from_be_bytes(&sk.to_be_bytes())) != Some(sk.clone()) { return Some("SecretKey be bytes do not round-trip".into()); }
                if Option::<SecretKey<C>>::from(SecretKey::<C>::from_le_bytes(&sk.to_le_bytes())) != Some(sk.clone()) { return Some("SecretKey le bytes do not round-trip".into()); }
                let v: Vec<u8> = Vec::from(&sk); match SecretKey::<C>::try_from(v.as_slice()) { Ok(p) if p == sk => {}, _ => return Some("SecretKey Vec form does not round-trip".into()) }
                let x = ProofCommitmentSecret::<C>(k); let y = ProofCommitmentChallenge::<C>(k);
                let mut r = x.to_be_bytes(); r.reverse(); if r != x.to_le_bytes() { return Some("ProofCommitmentSecret: big-endian is not the reverse of little-endian".into()); }
                if Option::<ProofCommitmentSecret<C>>::from(ProofCommitmentSecret::<C>::from_be_bytes(&x.to_be_bytes())) != Some(x) { return Some("ProofCommitmentSecret be bytes do not round-trip".into()); }
                if Option::<ProofCommitmentSecret<C>>::from(ProofCommitmentSecret::<C>::from_le_bytes(&x.to_le_bytes())) != Some(x) { return Some("ProofCommitmentSecret le bytes do not round-trip".into()); }
                let v: Vec<u8> = Vec::from(&x); match ProofCommitmentSecret::<C>::try_from(v.as_slice()) { Ok(p) if p == x => {}, _ => return Some("ProofCommitmentSecret Vec form does not round-trip".into()) }
                let mut r = y.to_be_bytes(); r.reverse(); if r != y.to_le_bytes() { return Some("ProofCommitmentChallenge: big-endian is not the reverse of little-endian".into()); }
                if Option::<ProofCommitmentChallenge<C>>::from(ProofCommitmentChallenge::<C>::from_be_bytes(&y.to_be_bytes())) != Some(y) { return Some("ProofCommitmentChallenge be bytes do not round-trip".into()); }
                if Option::<ProofCommitmentChallenge<C>>::from(ProofCommitmentChallenge::<C>::from_le_bytes(&y.to_le_bytes())) != Some(y) { return Some("ProofCommitmentChallenge le bytes do not round-trip".into()); }
                let v: Vec<u8> = Vec::from(&y); match ProofCommitmentChallenge::<C>::try_from(v.as_slice()) { Ok(p) if p == y => {}, _ => return Some("ProofCommitmentChallenge Vec form does not round-trip".into()) }
            }
            None
        }
        "containers" => {
            // serde_bare byte forms: decode(encode(x)) re-encodes to the same bytes (deterministic, lossless)
            for (name, enc, _) in point_containers(&s) {
                let again: Option<Vec<u8>> = match name {
                    "PublicKey" => PublicKey::<C>::try_from(enc.as_slice()).ok().map(|x| Vec::from(&x)),
                    "MultiPublicKey" => MultiPublicKey::<C>::try_from(enc.as_slice()).ok().map(|x| Vec::from(&x)),
                    "ProofOfPossession" => ProofOfPossession::<C>::try_from(enc.as_slice()).ok().map(|x| Vec::from(&x)),
                    "Signature" => Signature::<C>::try_from(enc.as_slice()).ok().map(|x| Vec::from(&x)),
                    "AggregateSignature" => AggregateSignature::<C>::try_from(enc.as_slice()).ok().map(|x| Vec::from(&x)),
                    "MultiSignature" => MultiSignature::<C>::try_from(enc.as_slice()).ok().map(|x| Vec::from(&x)),
                    "ProofCommitment" => ProofCommitment::<C>::try_from(enc.as_slice()).ok().map(|x| Vec::from(&x)),
                    "ProofOfKnowledge" => ProofOfKnowledge::<C>::try_from(enc.as_slice()).ok().map(|x| Vec::from(&x)),
                    "ProofOfKnowledgeTimestamp" => ProofOfKnowledgeTimestamp::<C>::try_from(enc.as_slice()).ok().map(|x| Vec::from(&x)),
                    "SignCryptCiphertext" => SignCryptCiphertext::<C>::try_from(enc.as_slice()).ok().map(|x| Vec::from(&x)),
                    "SignCryptDecryptionKey" => SignCryptDecryptionKey::<C>::try_from(enc.as_slice()).ok().map(|x| Vec::from(&x)),
                    "TimeCryptCiphertext" => TimeCryptCiphertext::<C>::try_from(enc.as_slice()).ok().map(|x| Vec::from(&x)),
                    "ElGamalCiphertext" => ElGamalCiphertext::<C>::try_from(enc.as_slice()).ok().map(|x| Vec::from(&x)),
                    _ => ElGamalProof::<C>::try_from(enc.as_slice()).ok().map(|x| Vec::from(&x)),
                };
                if again.as_ref() != Some(&enc) { return Some(format!("{}: bytes do not survive decode + encode", name)); }
            }
            for sh in &s.shares {
                let v: Vec<u8> = Vec::from(sh); match SecretKeyShare::<C>::try_from(v.as_slice()) { Ok(x) if Vec::<u8>::from(&x) == v => {}, _ => return Some("SecretKeyShare bytes do not round-trip".into()) }
                for sc in [SignatureSchemes::Basic, SignatureSchemes::ProofOfPossession] {
                    let p = sh.sign(sc, b"m").unwrap(); let v: Vec<u8> = Vec::from(&p);
                    match SignatureShare::<C>::try_from(v.as_slice()) { Ok(x) if x == p => {}, _ => return Some("SignatureShare bytes do not round-trip (scheme or payload changed)".into()) }
                }
                let p = sh.public_key().unwrap(); let v: Vec<u8> = Vec::from(&p);
                match PublicKeyShare::<C>::try_from(v.as_slice()) { Ok(x) if x == p => {}, _ => return Some("PublicKeyShare bytes do not round-trip".into()) }
            }
            None
        }
        "container_forms" => {
            // the four macro-generated container conversions agree with the slice / by-reference ones, for the
            // valid encoding, every truncation of it, and over-long inputs (up to 200 bytes beyond)
            macro_rules! forms { ($t:ty, $name:expr, $enc:expr) => {{
                let enc: Vec<u8> = $enc;
                let mut inputs: Vec<Vec<u8>> = (0..=enc.len()).map(|l| enc[..l].to_vec()).collect();
                for extra in [1usize, 48, 96, 200] { let mut e = enc.clone(); e.extend(std::iter::repeat(0x5au8).take(extra)); inputs.push(e); }
                for b in inputs {
                    let base = <$t>::try_from(b.as_slice()).ok().map(|x| Vec::<u8>::from(&x));
                    let a = <$t>::try_from(b.clone()).ok().map(|x| Vec::<u8>::from(&x));
                    let r = <$t>::try_from(&b).ok().map(|x| Vec::<u8>::from(&x));
                    let x = <$t>::try_from(b.clone().into_boxed_slice()).ok().map(|x| Vec::<u8>::from(&x));
                    if a != base || r != base || x != base { return Some(format!("{}: the Vec / &Vec / Box<[u8]> conversions disagree with the slice conversion on an input of {} bytes (valid encoding: {} bytes)", $name, b.len(), enc.len())); }
                }
                if let Ok(v) = <$t>::try_from(enc.as_slice()) { let by_ref = Vec::<u8>::from(&v); let owned: Vec<u8> = v.into(); if owned != by_ref { return Some(format!("{}: From<T> for Vec<u8> differs from From<&T>", $name)); } }
            }}; }
            for (name, enc, _) in point_containers(&s) {
                match name {
                    "PublicKey" => forms!(PublicKey<C>, name, enc),
                    "MultiPublicKey" => forms!(MultiPublicKey<C>, name, enc),
                    "ProofOfPossession" => forms!(ProofOfPossession<C>, name, enc),
                    "Signature" => forms!(Signature<C>, name, enc),
                    "AggregateSignature" => forms!(AggregateSignature<C>, name, enc),
                    "MultiSignature" => forms!(MultiSignature<C>, name, enc),
                    "ProofCommitment" => forms!(ProofCommitment<C>, name, enc),
                    "ProofOfKnowledge" => forms!(ProofOfKnowledge<C>, name, enc),
                    "ProofOfKnowledgeTimestamp" => forms!(ProofOfKnowledgeTimestamp<C>, name, enc),
                    "SignCryptCiphertext" => forms!(SignCryptCiphertext<C>, name, enc),
                    "SignCryptDecryptionKey" => forms!(SignCryptDecryptionKey<C>, name, enc),
                    "TimeCryptCiphertext" => forms!(TimeCryptCiphertext<C>, name, enc),
                    "ElGamalCiphertext" => forms!(ElGamalCiphertext<C>, name, enc),
                    _ => forms!(ElGamalProof<C>, name, enc),
                }
            }
            forms!(SecretKey<C>, "SecretKey", Vec::from(&s.sk));
            forms!(ProofCommitmentSecret<C>, "ProofCommitmentSecret", Vec::from(&ProofCommitmentSecret::<C>(s.sk.0)));
            forms!(ProofCommitmentChallenge<C>, "ProofCommitmentChallenge", Vec::from(&ProofCommitmentChallenge::<C>(s.sk.0)));
            forms!(SecretKeyEnum, "SecretKeyEnum", Vec::from(&SecretKeyEnum::G2(SecretKey::<G2>::from_hash(b"enum key"))));
            let sh = &s.shares[0];
            forms!(SecretKeyShare<C>, "SecretKeyShare", Vec::from(sh));
            forms!(PublicKeyShare<C>, "PublicKeyShare", Vec::from(&sh.public_key().ok()?));
            forms!(SignatureShare<C>, "SignatureShare", Vec::from(&sh.sign(SignatureSchemes::Basic, b"m").ok()?));
            None
        }
        "large_payloads" => {
            // payload-carrying types at the sizes where the serde_bare length prefix grows (128, 16384)
            for l in [0usize, 1, 126, 127, 128, 129, 300, 16383, 16384, 16385] {
                let m: Vec<u8> = (0..l).map(|i| (i * 11 + 3) as u8).collect();
                for sch in [SignatureSchemes::Basic, SignatureSchemes::ProofOfPossession] {
                    let sc = s.pk.sign_crypt(sch, &m); let v: Vec<u8> = Vec::from(&sc);
                    match SignCryptCiphertext::<C>::try_from(v.as_slice()) { Ok(x) if x == sc => {}, Ok(_) => return Some(format!("SignCryptCiphertext with a {}-byte message comes back as another value", l)), Err(e) => return Some(format!("SignCryptCiphertext with a {}-byte message: its own bytes are rejected: {}", l, e)) }
                    match SignCryptCiphertext::<C>::try_from(v.clone()) { Ok(x) if x == sc => {}, _ => return Some(format!("SignCryptCiphertext with a {}-byte message: Vec<u8> form does not round-trip", l)) }
                    let tc = s.pk.encrypt_time_lock(sch, &m, b"id").ok()?; let v: Vec<u8> = Vec::from(&tc);
                    match TimeCryptCiphertext::<C>::try_from(v.as_slice()) { Ok(x) if x == tc => {}, Ok(_) => return Some(format!("TimeCryptCiphertext with a {}-byte message comes back as another value", l)), Err(e) => return Some(format!("TimeCryptCiphertext with a {}-byte message: its own bytes are rejected: {}", l, e)) }
                }
            }
            None
        }
        "schemes" => {
            for sc in [SignatureSchemes::Basic, SignatureSchemes::MessageAugmentation, SignatureSchemes::ProofOfPossession] {
                let txt = sc.to_string();
                match txt.parse::<SignatureSchemes>() { Ok(x) if x == sc => {}, _ => return Some(format!("SignatureSchemes text form {} does not round-trip", txt)) }
                let j = serde_json::to_string(&sc).ok()?; match serde_json::from_str::<SignatureSchemes>(&j) { Ok(x) if x == sc => {}, _ => return Some("SignatureSchemes JSON form does not round-trip".into()) }
            }
            for b in [Bls12381::G1, Bls12381::G2] {
                match Bls12381::try_from(u8::from(b)) { Ok(x) if x == b => {}, _ => return Some("Bls12381 tag byte does not round-trip".into()) }
                match Bls12381::try_from(&u8::from(&b)) { Ok(x) if x == b => {}, _ => return Some("Bls12381 &u8 form does not round-trip".into()) }
                match b.to_string().parse::<Bls12381>() { Ok(x) if x == b => {}, _ => return Some("Bls12381 text form does not round-trip".into()) }
                let j = serde_json::to_string(&b).ok()?; match serde_json::from_str::<Bls12381>(&j) { Ok(x) if x == b => {}, _ => return Some("Bls12381 JSON form does not round-trip".into()) }
            }
            None
        }
        _ => {
            // JSON forms of the main types
            let j = serde_json::to_string(&s.pk).ok()?; match serde_json::from_str::<PublicKey<C>>(&j) { Ok(x) if x == s.pk => {}, _ => return Some("PublicKey JSON form does not round-trip".into()) }
            let j = serde_json::to_string(&s.sig).ok()?; match serde_json::from_str::<Signature<C>>(&j) { Ok(x) if x == s.sig => {}, _ => return Some("Signature JSON form does not round-trip".into()) }
            let j = serde_json::to_string(&s.sk).ok()?; match serde_json::from_str::<SecretKey<C>>(&j) { Ok(x) if x == s.sk => {}, _ => return Some("SecretKey JSON form does not round-trip".into()) }
            let j = serde_json::to_string(&s.pop).ok()?; match serde_json::from_str::<ProofOfPossession<C>>(&j) { Ok(x) if x == s.pop => {}, _ => return Some("ProofOfPossession JSON form does not round-trip".into()) }
            None
        }
    }
}

/// zig-zag LEB128 of v (the prefix format of the payload framing)
fn leb(mut v: u128) -> Vec<u8> { let mut o = vec![]; loop { let b = (v & 0x7f) as u8; v >>= 7; if v == 0 { o.push(b); break; } o.push(b | 0x80); } o }

fn total<C: BlsSignatureImpl + PartialEq + Copy + Send + Sync + 'static>(c: &Value) -> Option<String> {
    let s = sample::<C>();
    match c["kind"].as_str().unwrap() {
        "sc_prefix" => {
            // an invalid ciphertext is unmasked with the identity point, whose keystream is public: the
            // sender controls the bytes the length-prefix parser sees
            let base = s.pk.sign_crypt(SignatureSchemes::Basic, b"an honest message");
            let mut lens: Vec<u128> = vec![0, 1, 21, 22, 23, 31, 32, 33, 127, 128, 1 << 14, 1 << 32, (1u128 << 63) - 1, 1 << 63, u64::MAX as u128, u64::MAX as u128 - 1, u64::MAX as u128 - 9, u64::MAX as u128 - 10, u64::MAX as u128 - 31, 1 << 64, u128::MAX];
            lens.extend((0..12).map(|k| u64::MAX as u128 - k));
            for l in lens { for total_len in [0usize, 1, 10, 11, 32, 40] {
                let mut p = leb(l); if p.len() < total_len { p.resize(total_len, 0); } else if total_len < p.len() && total_len > 0 { p.truncate(total_len); }
                let mut ct = base.clone();
                ct.v = <C as BlsSignCrypt>::compute_v(<C as Pairing>::PublicKey::identity(), p.as_slice());
                let bytes = Vec::<u8>::from(&ct);
                let ct = match SignCryptCiphertext::<C>::try_from(bytes.as_slice()) { Ok(x) => x, Err(_) => continue };
                let _ = ct.decrypt(&s.sk);
                let _ = SignCryptDecryptionKey::<C>(<C as Pairing>::PublicKey::identity()).decrypt(&ct);
                let _ = ct.decrypt_with_shares(&[] as &[SignDecryptionShare<C>]);
                let _ = ct.is_valid();
            }}
            None
        }
        "tc_short" => {
            let tc = s.pk.encrypt_time_lock(SignatureSchemes::Basic, b"time locked", b"id").unwrap();
            let sig = s.sk.sign(SignatureSchemes::Basic, b"id").unwrap();
            for wl in [0usize, 1, 2, 9, 10, 31, 32, 33] { for vb in [0u8, 0xff] {
                let mut t = tc.clone(); t.w.resize(wl, 0xff); t.v = [vb; 32];
                let _ = t.decrypt(&sig);
                let _ = t.decrypt(&Signature::<C>::Basic(<C as Pairing>::Signature::identity()));
                let _ = t.decrypt(&Signature::<C>::ProofOfPossession(*sig.as_raw_value()));
            }}
            None
        }
        "every_length" => {
            // every decoder on every truncation of every valid encoding, on all-0xFF / all-zero strings of
            // every length up to 200, and on bit flips of the first bytes: must return
            let mut inputs: Vec<Vec<u8>> = vec![];
            for (_, enc, _) in point_containers(&s) { for l in 0..=enc.len() { inputs.push(enc[..l].to_vec()); } for i in 0..enc.len().min(6) { for bit in 0..8 { let mut e = enc.clone(); e[i] ^= 1 << bit; inputs.push(e); } } }
            for l in 0..200usize { inputs.push(vec![0xffu8; l]); inputs.push(vec![0u8; l]); inputs.push(vec![0x80u8; l]); }
            for b in &inputs {
                let b = b.as_slice();
                let _ = PublicKey::<C>::try_from(b); let _ = MultiPublicKey::<C>::try_from(b); let _ = ProofOfPossession::<C>::try_from(b);
                let _ = Signature::<C>::try_from(b); let _ = AggregateSignature::<C>::try_from(b); let _ = MultiSignature::<C>::try_from(b);
                let _ = ProofCommitment::<C>::try_from(b); let _ = ProofCommitmentSecret::<C>::try_from(b); let _ = ProofCommitmentChallenge::<C>::try_from(b);
                let _ = ProofOfKnowledge::<C>::try_from(b); let _ = ProofOfKnowledgeTimestamp::<C>::try_from(b);
                let _ = SignCryptCiphertext::<C>::try_from(b); let _ = SignCryptDecryptionKey::<C>::try_from(b); let _ = SignDecryptionShare::<C>::try_from(b);
                let _ = TimeCryptCiphertext::<C>::try_from(b); let _ = ElGamalCiphertext::<C>::try_from(b); let _ = ElGamalProof::<C>::try_from(b);
                let _ = ElGamalDecryptionShare::<C>::try_from(b); let _ = ElGamalDecryptionKey::<C>::try_from(b);
                let _ = SecretKey::<C>::try_from(b); let _ = SecretKeyEnum::try_from(b); let _ = SecretKeyEnum::from_be_bytes(b); let _ = SecretKeyEnum::from_le_bytes(b);
                let _ = SecretKeyShare::<C>::try_from(b); let _ = PublicKeyShare::<C>::try_from(b); let _ = SignatureShare::<C>::try_from(b);
                // whatever a decoder returned is fed to the consuming methods
                if let Ok(x) = Signature::<C>::try_from(b) { let _ = x.verify(&s.pk, b"m"); }
                if let Ok(x) = SignCryptCiphertext::<C>::try_from(b) { let _ = x.decrypt(&s.sk); let _ = x.is_valid(); }
                if let Ok(x) = TimeCryptCiphertext::<C>::try_from(b) { let _ = x.decrypt(&s.sig); }
                if let Ok(x) = ProofOfKnowledgeTimestamp::<C>::try_from(b) { let _ = x.verify(s.pk, b"m", Some(0)); let _ = x.verify(s.pk, b"m", Some(u64::MAX)); let _ = x.verify(s.pk, b"m", None); }
                if let Ok(x) = ElGamalProof::<C>::try_from(b) { let _ = x.verify(s.pk); let _ = x.verify_and_decrypt(&s.sk); }
            }
            None
        }
        "share_sets" => {
            let m = b"m";
            let ps: Vec<SignatureShare<C>> = s.shares.iter().map(|x| x.sign(SignatureSchemes::Basic, m).unwrap()).collect();
            let pks: Vec<PublicKeyShare<C>> = s.shares.iter().map(|x| x.public_key().unwrap()).collect();
            for l in 0..=ps.len() {
                let _ = Signature::<C>::from_shares(&ps[..l]); let _ = PublicKey::<C>::from_shares(&pks[..l]); let _ = SecretKey::<C>::combine(&s.shares[..l]);
                let ds: Vec<SignDecryptionShare<C>> = pks[..l].iter().map(|p| SignDecryptionShare(p.0)).collect();
                let _ = SignCryptDecryptionKey::<C>::from_shares(&ds);
                let es: Vec<ElGamalDecryptionShare<C>> = pks[..l].iter().map(|p| ElGamalDecryptionShare(p.0)).collect();
                let _ = ElGamalDecryptionKey::<C>::from_shares(&es);
            }
            let _ = AggregateSignature::<C>::from_signatures(&[] as &[Signature<C>]); let _ = MultiSignature::<C>::from_signatures(&[] as &[Signature<C>]);
            let _ = AggregateSignature::<C>::from_signatures(&[s.sig]); let _ = MultiSignature::<C>::from_signatures(&[s.sig]);
            if let Ok(a) = AggregateSignature::<C>::from_signatures(&[s.sig, s.sig]) { let _ = a.verify(&[] as &[(PublicKey<C>, Vec<u8>)]); }
            None
        }
        _ => {
            let _ = MultiPublicKey::<C>::from_public_keys(&[] as &[PublicKey<C>]);
            let _ = s.sig.as_raw_value();
            None
        }
    }
}

// ----- C03: independent KeyGen reference (HKDF-SHA-256 from the sha2 crate via HMAC written here) ----
fn sha256(d: &[u8]) -> [u8; 32] { use sha2::Digest; let mut h = sha2::Sha256::new(); h.update(d); h.finalize().into() }
fn hmac(key: &[u8], data: &[u8]) -> [u8; 32] {
    let mut k = [0u8; 64];
    if key.len() > 64 { k[..32].copy_from_slice(&sha256(key)); } else { k[..key.len()].copy_from_slice(key); }
    let mut i = vec![0u8; 64]; let mut o = vec![0u8; 64];
    for j in 0..64 { i[j] = k[j] ^ 0x36; o[j] = k[j] ^ 0x5c; }
    i.extend_from_slice(data); let ih = sha256(&i); o.extend_from_slice(&ih); sha256(&o)
}
fn keygen_ref(ikm: &[u8]) -> Scalar {
    let salt = b"BLS-SIG-KEYGEN-SALT-";
    let mut ikm0 = ikm.to_vec(); ikm0.push(0);
    let prk = hmac(salt, &ikm0);
    // expand to 48 bytes with info = I2OSP(48, 2)
    let info = [0u8, 48u8];
    let mut t1in = info.to_vec(); t1in.push(1); let t1 = hmac(&prk, &t1in);
    let mut t2in = t1.to_vec(); t2in.extend_from_slice(&info); t2in.push(2); let t2 = hmac(&prk, &t2in);
    let mut okm = [0u8; 48]; okm[..32].copy_from_slice(&t1); okm[32..].copy_from_slice(&t2[..16]);
    // OS2IP(okm) mod r
    let mut acc = Scalar::ZERO; let b256 = Scalar::from(256u64);
    for b in okm { acc = acc * b256 + Scalar::from(b as u64); }
    acc
}
fn keygen<C: BlsSignatureImpl + PartialEq + Copy + Send + Sync + 'static>(c: &Value) -> Option<String> {
    let seeds: Vec<Vec<u8>> = vec![vec![], vec![0], b"seed".to_vec(), vec![0xa5; 32], (0..100u8).collect()];
    match c["kind"].as_str().unwrap() {
        "from_hash_entry_points" => {
            for s in &seeds {
                let a = SecretKey::<C>::from_hash(s);
                let b = BlsSignature::<C>::secret_key_from_hash(s);
                if a != b { return Some(format!("BlsSignature::secret_key_from_hash and SecretKey::from_hash disagree on seed {}", hex::encode(s))); }
                let y = ProofCommitmentChallenge::<C>::from_hash(s);
                if BlsSignature::<C>::proof_challenge_from_hash(s) != y { return Some("BlsSignature::proof_challenge_from_hash and ProofCommitmentChallenge::from_hash disagree".into()); }
            }
            None
        }
        _ => {
            for s in &seeds {
                let want = keygen_ref(s).to_be_bytes().to_vec();
                if Vec::<u8>::from(&SecretKey::<C>::from_hash(s)) != want { return Some(format!("SecretKey::from_hash differs from the HKDF KeyGen reference on seed {}", hex::encode(s))); }
                if Vec::<u8>::from(&BlsSignature::<C>::secret_key_from_hash(s)) != want { return Some(format!("BlsSignature::secret_key_from_hash differs from the HKDF KeyGen reference on seed {}", hex::encode(s))); }
            }
            None
        }
    }
}

// ----- C20: no two calls with the same inputs share an ephemeral value ----------------------------
fn ephemerals<C: BlsSignatureImpl + PartialEq + Copy + Send + Sync + 'static>(s: &Sample<C>, n: usize) -> Vec<(String, Vec<u8>)> {
    let mut out = vec![];
    let m = b"same message";
    for _ in 0..n {
        out.push(("SecretKey::new".to_string(), Vec::from(&SecretKey::<C>::new())));
        out.push(("BlsSignature::new_secret_key".to_string(), Vec::from(&BlsSignature::<C>::new_secret_key())));
        out.push(("ProofCommitmentChallenge::new".to_string(), Vec::from(&ProofCommitmentChallenge::<C>::new())));
        out.push(("sign_crypt.u".to_string(), Vec::from(&PublicKey::<C>(s.pk.sign_crypt(SignatureSchemes::Basic, m).u))));
        out.push(("encrypt_time_lock.u".to_string(), Vec::from(&PublicKey::<C>(s.pk.encrypt_time_lock(SignatureSchemes::Basic, m, b"id").unwrap().u))));
        out.push(("encrypt_key_el_gamal.c1".to_string(), Vec::from(&PublicKey::<C>(s.pk.encrypt_key_el_gamal(&s.sk).unwrap().c1))));
        out.push(("encrypt_key_el_gamal_with_proof.c1".to_string(), Vec::from(&PublicKey::<C>(s.pk.encrypt_key_el_gamal_with_proof(&s.sk).unwrap().ciphertext.c1))));
        out.push(("ProofCommitment::generate".to_string(), Vec::from(&ProofCommitment::<C>::generate(m, s.sig).unwrap().0)));
        // the proof nonce commitment r1 = r*G, recomputed the way the verifier does: -c*c1 + bp*G
        let p = s.pk.encrypt_key_el_gamal_with_proof(&s.sk).unwrap();
        let r1 = p.ciphertext.c1 * (-p.challenge) + <C as Pairing>::PublicKey::generator() * p.blinder_proof;
        out.push(("encrypt_key_el_gamal_with_proof.r1".to_string(), Vec::from(&PublicKey::<C>(r1))));
        out.push(("split.share1".to_string(), Vec::from(&s.sk.split(2, 3).unwrap()[0])));
        // two proofs made back to back: the nonce of the first must not come back as the blinder of the second
        let g = <C as Pairing>::PublicKey::generator();
        let p1 = s.pk.encrypt_key_el_gamal_with_proof(&s.sk).unwrap();
        let p2 = s.pk.encrypt_key_el_gamal_with_proof(&s.sk).unwrap();
        let p3 = s.pk.encrypt_key_el_gamal(&s.sk).unwrap();
        out.push(("encrypt_key_el_gamal_with_proof.r1".to_string(), Vec::from(&PublicKey::<C>(p1.ciphertext.c1 * (-p1.challenge) + g * p1.blinder_proof))));
        out.push(("encrypt_key_el_gamal_with_proof.c1".to_string(), Vec::from(&PublicKey::<C>(p2.ciphertext.c1))));
        out.push(("encrypt_key_el_gamal_with_proof.r1".to_string(), Vec::from(&PublicKey::<C>(p2.ciphertext.c1 * (-p2.challenge) + g * p2.blinder_proof))));
        out.push(("encrypt_key_el_gamal.c1".to_string(), Vec::from(&PublicKey::<C>(p3.c1))));
    }
    out
}
fn first_repeat(v: &[(String, Vec<u8>)]) -> Option<String> {
    let mut seen = std::collections::HashMap::new();
    for (k, b) in v { if let Some(_) = seen.insert((k.clone(), b.clone()), ()) { return Some(k.clone()); } }
    None
}
/// the same ephemeral SCALAR used in two different roles shows as the same multiple of the generator under two labels
fn cross_role_repeat(v: &[(String, Vec<u8>)]) -> Option<String> {
    let on_generator = ["sign_crypt.u", "encrypt_time_lock.u", "encrypt_key_el_gamal.c1", "encrypt_key_el_gamal_with_proof.c1", "encrypt_key_el_gamal_with_proof.r1"];
    let mut seen: std::collections::HashMap<Vec<u8>, String> = std::collections::HashMap::new();
    for (k, b) in v {
        if !on_generator.contains(&k.as_str()) { continue; }
        if let Some(prev) = seen.insert(b.clone(), k.clone()) { return Some(format!("{} of one call equals {} of another call", prev, k)); }
    }
    None
}
fn fresh<C: BlsSignatureImpl + PartialEq + Copy + Send + Sync + 'static>(c: &Value) -> Option<String> {
    match c["kind"].as_str().unwrap() {
        "sequence" => { let s = sample::<C>(); let e = ephemerals(&s, 64);
            first_repeat(&e).map(|k| format!("{}: the same ephemeral value was produced by two calls in one thread", k))
                .or_else(|| cross_role_repeat(&e).map(|k| format!("an ephemeral scalar is reused across calls: {}", k))) }
        _ => {
            let hs: Vec<std::thread::JoinHandle<Vec<(String, Vec<u8>)>>> = (0..4).map(|_| std::thread::spawn(|| { let s = sample::<C>(); ephemerals(&s, 16) })).collect();
            let mut all = vec![]; for h in hs { all.extend(h.join().ok()?); }
            first_repeat(&all).map(|k| format!("{}: the same ephemeral value was produced on two different threads", k))
        }
    }
}

// ----- C18: an independent implementation of the documented constructions --------------------------
fn shake128(input: &[u8], n: usize) -> Vec<u8> {
    use sha3::digest::{ExtendableOutput, Update, XofReader};
    let mut h = sha3::Shake128::default(); h.update(input); let mut r = h.finalize_xof(); let mut o = vec![0u8; n]; r.read(&mut o); o
}
fn xor(a: &[u8], b: &[u8]) -> Vec<u8> { assert_eq!(a.len(), b.len()); (0..a.len()).map(|i| a[i] ^ b[i]).collect() }
/// LEB128 prefix: (value, bytes used)
fn unleb(b: &[u8]) -> Option<(u128, usize)> {
    let mut v: u128 = 0; let mut shift = 0u32;
    for (i, x) in b.iter().enumerate() { if shift >= 128 { return None; } v |= ((x & 0x7f) as u128) << shift; if x & 0x80 == 0 { return Some((v, i + 1)); } shift += 7; }
    None
}
fn frame(m: &[u8]) -> Vec<u8> { let mut f = leb(m.len() as u128); f.extend_from_slice(m); while f.len() < 32 { f.push(0); } f }
fn unframe(p: &[u8]) -> Option<Vec<u8>> { let (l, k) = unleb(p)?; let l = l as usize; if l <= p.len() - k { Some(p[k..k + l].to_vec()) } else { None } }
fn dst_of<C: BlsSignatureImpl>(s: SignatureSchemes) -> &'static [u8] {
    match s { SignatureSchemes::Basic => <C as BlsSignatureBasic>::DST, SignatureSchemes::MessageAugmentation => <C as BlsSignatureMessageAugmentation>::DST, SignatureSchemes::ProofOfPossession => <C as BlsSignaturePop>::SIG_DST }
}
fn interop<C: BlsSignatureImpl + PartialEq + Copy + Send + Sync + serde::Serialize + serde::de::DeserializeOwned + 'static>(c: &Value) -> Option<String> {
    let s = sample::<C>();
    let sch = match c["scheme"].as_str().unwrap_or("") { "Basic" => SignatureSchemes::Basic, "MessageAugmentation" => SignatureSchemes::MessageAugmentation, _ => SignatureSchemes::ProofOfPossession };
    let lens: Vec<usize> = (0..=80).chain([100usize, 127, 128, 129, 255, 256, 257, 1000]).collect();
    let msg = |l: usize| -> Vec<u8> { (0..l).map(|i| (i * 13 + 5) as u8).collect() };
    match c["kind"].as_str().unwrap() {
        "sc_lib_to_ref" => {
            for l in lens { let m = msg(l);
                let ct = s.pk.sign_crypt(sch, &m);
                let p = ct.u * s.sk.0;
                let plain = xor(&ct.v, &shake128(p.to_bytes().as_ref(), ct.v.len()));
                if ct.v.len() != frame(&m).len() { return Some(format!("signcryption payload of a {}-byte message has {} bytes, the documented framing gives {}", l, ct.v.len(), frame(&m).len())); }
                if unframe(&plain) != Some(m.clone()) { return Some(format!("the reference opener does not recover a {}-byte message sealed by the library", l)); }
            }
            None
        }
        "sc_ref_to_lib" => {
            for l in lens { let m = msg(l);
                let r = SecretKey::<C>::from_hash(&[b"ephemeral".as_slice(), &m].concat()).0;
                let u = <C as Pairing>::PublicKey::generator() * r;
                let f = frame(&m);
                let v = xor(&f, &shake128((s.pk.0 * r).to_bytes().as_ref(), f.len()));
                let mut t = u.to_bytes().as_ref().to_vec(); t.extend_from_slice(&v);
                let w = <C as HashToPoint>::hash_to_point(t.as_slice(), dst_of::<C>(sch)) * r;
                let ct = SignCryptCiphertext::<C> { u, v, w, scheme: sch };
                if !bool::from(ct.is_valid()) { return Some(format!("the library rejects a reference-sealed ciphertext ({} bytes, {:?})", l, sch)); }
                match Option::<Vec<u8>>::from(ct.decrypt(&s.sk)) { Some(x) if x == m => {}, _ => return Some(format!("the library does not open a reference-sealed {}-byte message", l)) }
            }
            None
        }
        "eg_transcript_default_generator" | "eg_transcript_custom_generator" => {
            // the ElGamal proof transcript, re-derived with merlin from the documented labels and order, over the
            // generator actually used for the ciphertext
            use rand_core::SeedableRng;
            type Sc<C> = <<C as Pairing>::PublicKey as Group>::Scalar;
            let salt: &[u8] = b"ELGAMAL_BLS12381_XOF:HKDF-SHA2-256_";
            let custom = c["kind"] == "eg_transcript_custom_generator";
            let gen = if custom { <C as Pairing>::PublicKey::generator() * SecretKey::<C>::from_hash(b"another generator").0 } else { <C as BlsElGamal>::message_generator() };
            let arg = if custom { Some(gen) } else { None };
            let g = <C as Pairing>::PublicKey::generator();
            let challenge_of = |pk: <C as Pairing>::PublicKey, c1: <C as Pairing>::PublicKey, c2: <C as Pairing>::PublicKey, r1: <C as Pairing>::PublicKey, r2: <C as Pairing>::PublicKey| -> Sc<C> {
                let mut t = merlin::Transcript::new(b"ElGamalProof");
                t.append_message(b"dst", salt);
                t.append_message(b"base point", g.to_bytes().as_ref());
                t.append_message(b"pk", pk.to_bytes().as_ref());
                t.append_message(b"generator", gen.to_bytes().as_ref());
                t.append_message(b"c1", c1.to_bytes().as_ref());
                t.append_message(b"c2", c2.to_bytes().as_ref());
                t.append_message(b"r1", r1.to_bytes().as_ref());
                t.append_message(b"r2", r2.to_bytes().as_ref());
                let mut ch = [0u8; 64]; t.challenge_bytes(b"challenge", &mut ch);
                <C as BlsElGamal>::scalar_from_bytes_wide(&ch)
            };
            let msg = SecretKey::<C>::from_hash(b"elgamal message").0;
            // library -> reference
            let (c1, c2, mp, bp, ch) = match <C as BlsElGamal>::seal_scalar_with_proof(s.pk.0, msg, arg, None, rand_chacha::ChaCha20Rng::from_seed([5u8; 32])) { Ok(x) => x, Err(e) => return Some(format!("seal_scalar_with_proof failed: {}", e)) };
            let r1 = c1 * (-ch) + g * bp;
            let r2 = c2 * (-ch) + gen * mp + s.pk.0 * bp;
            if challenge_of(s.pk.0, c1, c2, r1, r2) != ch { return Some("the library's ElGamal challenge is not the documented transcript over the generator in use".into()); }
            // reference -> library
            let b = SecretKey::<C>::from_hash(b"blinder").0; let r = SecretKey::<C>::from_hash(b"nonce").0;
            let (d1, d2) = (g * b, s.pk.0 * b + gen * msg);
            let (q1, q2) = (g * r, s.pk.0 * r + gen * b);
            let y = challenge_of(s.pk.0, d1, d2, q1, q2);
            let (mp2, bp2) = (b + y * msg, r + y * b);
            if let Err(e) = <C as BlsElGamal>::verify_proof(s.pk.0, arg, d1, d2, mp2, bp2, y) { return Some(format!("the library rejects a reference-made ElGamal proof: {}", e)); }
            match <C as BlsElGamal>::verify_and_decrypt(s.sk.0, arg, d1, d2, mp2, bp2, y) { Ok(p) if p == gen * msg => {}, _ => return Some("verify_and_decrypt does not open a reference-made ElGamal proof".into()) }
            None
        }
        "json_layout" => {
            // the human-readable (JSON) layout of the ciphertext types as the pinned release writes it, read and
            // written by an independent reader / writer: byte strings are arrays of numbers, points are hex strings
            let m = b"json layout".to_vec();
            let tc = s.pk.encrypt_time_lock(SignatureSchemes::Basic, &m, b"id").ok()?;
            let j = serde_json::to_value(&tc).ok()?;
            let arr = |v: &Value, n: Option<usize>| -> bool { v.as_array().map(|a| n.map(|k| a.len() == k).unwrap_or(true) && a.iter().all(|x| x.as_u64().map(|y| y < 256).unwrap_or(false))).unwrap_or(false) };
            if !arr(&j["v"], Some(32)) { return Some(format!("TimeCryptCiphertext JSON: `v` is not an array of 32 numbers as in the pinned release: {}", j["v"])); }
            if !arr(&j["w"], None) { return Some("TimeCryptCiphertext JSON: `w` is not an array of numbers as in the pinned release".into()); }
            if !j["u"].is_string() { return Some("TimeCryptCiphertext JSON: `u` is not a hex string as in the pinned release".into()); }
            let doc = json!({"u": hex::encode(tc.u.to_bytes().as_ref()), "v": tc.v.to_vec(), "w": tc.w.clone(), "scheme": j["scheme"].clone()});
            match serde_json::from_str::<TimeCryptCiphertext<C>>(&doc.to_string()) { Ok(x) if x == tc => {}, Ok(_) => return Some("TimeCryptCiphertext: a JSON document in the pinned layout decodes to another value".into()), Err(e) => return Some(format!("TimeCryptCiphertext: a JSON document in the pinned layout is rejected: {}", e)) }
            let sc = s.pk.sign_crypt(SignatureSchemes::Basic, &m);
            let j = serde_json::to_value(&sc).ok()?;
            if !arr(&j["v"], None) || !j["u"].is_string() || !j["w"].is_string() { return Some("SignCryptCiphertext JSON layout differs from the pinned release (u, w hex strings; v an array of numbers)".into()); }
            let doc = json!({"u": hex::encode(sc.u.to_bytes().as_ref()), "v": sc.v.clone(), "w": hex::encode(sc.w.to_bytes().as_ref()), "scheme": j["scheme"].clone()});
            match serde_json::from_str::<SignCryptCiphertext<C>>(&doc.to_string()) { Ok(x) if x == sc => {}, _ => return Some("SignCryptCiphertext: a JSON document in the pinned layout is rejected or decodes to another value".into()) }
            None
        }
        "pok_challenge_ref" => {
            // the timestamp challenge, derived independently: y = HashToScalar(enc(u) || le64(t), SALT_POK)
            let salt: &[u8] = b"BLS_POK__BLS12381_XOF:HKDF-SHA2-256_";
            let m = b"proof of knowledge message";
            let sig = s.sk.sign(sch, m).ok()?;
            let p = ProofOfKnowledgeTimestamp::<C>::generate(m, sig).ok()?;
            let u = match p.proof { ProofOfKnowledge::Basic { u, .. } => u, ProofOfKnowledge::MessageAugmentation { u, .. } => u, ProofOfKnowledge::ProofOfPossession { u, .. } => u };
            let mut input = u.to_bytes().as_ref().to_vec(); input.extend_from_slice(&p.timestamp.to_le_bytes());
            let y = <C as HashToScalar>::hash_to_scalar(input.as_slice(), salt);
            for t in [0u64, 1, p.timestamp, u64::MAX] {
                let mut i2 = u.to_bytes().as_ref().to_vec(); i2.extend_from_slice(&t.to_le_bytes());
                if <C as BlsSignatureProof>::compute_y(u, t) != <C as HashToScalar>::hash_to_scalar(i2.as_slice(), salt) { return Some(format!("compute_y(u, {}) differs from HashToScalar(enc(u) || le64(t), SALT_POK)", t)); }
            }
            if sch == SignatureSchemes::MessageAugmentation { return None; }   // known finding F7: Aug proofs never verify
            let own = p.verify(s.pk, m, None).is_ok();
            let via_ref = p.proof.verify(s.pk, m, ProofCommitmentChallenge::<C>(y)).is_ok();
            if own != via_ref || !own { return Some("a timestamp proof does not verify under the independently derived challenge".into()); }
            None
        }
        _ => {
            for l in lens { let m = msg(l);
                let id = b"time lock id";
                let ct = match s.pk.encrypt_time_lock(sch, &m, id) { Ok(x) => x, Err(e) => return Some(format!("encrypt_time_lock failed: {}", e)) };
                let sig = s.sk.sign(sch, id).ok()?;
                let k = <C as Pairing>::pairing(&[(*sig.as_raw_value(), ct.u)]);
                let alpha = xor(&ct.v, &sha256(k.to_bytes().as_ref()));
                let plain = xor(&ct.w, &shake128(&alpha, ct.w.len()));
                if ct.w.len() != frame(&m).len() { return Some(format!("time-lock payload of a {}-byte message has {} bytes, the documented framing gives {}", l, ct.w.len(), frame(&m).len())); }
                if unframe(&plain) != Some(m.clone()) { return Some(format!("the reference opener does not recover a {}-byte time-locked message", l)); }
                match Option::<Vec<u8>>::from(ct.decrypt(&sig)) { Some(x) if x == m => {}, _ => return Some(format!("the library does not open its own {}-byte time-lock ciphertext", l)) }
            }
            None
        }
    }
}

/// C04 on the payload-encryption paths: ciphertexts CRAFTED (with the reference construction, no key) so that
/// they would open under an identity decryption key / identity component if the guard were missing
fn identity_payload<C: BlsSignatureImpl + PartialEq + Copy + Send + Sync + 'static>(c: &Value) -> Option<String> {
    let s = sample::<C>();
    let sch = match c["scheme"].as_str().unwrap_or("") { "Basic" => SignatureSchemes::Basic, "MessageAugmentation" => SignatureSchemes::MessageAugmentation, _ => SignatureSchemes::ProofOfPossession };
    let mk = |p: <C as Pairing>::Signature| match sch { SignatureSchemes::Basic => Signature::<C>::Basic(p), SignatureSchemes::MessageAugmentation => Signature::MessageAugmentation(p), _ => Signature::ProofOfPossession(p) };
    let salt: &[u8] = b"TIMELOCK_BLS12381_XOF:HKDF-SHA2-256_";
    let m = b"abc".to_vec();
    let id_sig = <C as Pairing>::Signature::identity();
    let id_pk = <C as Pairing>::PublicKey::identity();
    
    match c["kind"].as_str().unwrap() {
        "tc_forged_id_sig" => {
            // K = e(O, U) is the unit of the target group whatever U is: anybody can seal to it
            let alpha = [0x42u8; 32];
            let mut ri = alpha.to_vec(); ri.extend_from_slice(&sha256(&m));
            let r = <C as HashToScalar>::hash_to_scalar(ri.as_slice(), salt);
            let u = <C as Pairing>::PublicKey::generator() * r;
            let k = <C as Pairing>::pairing(&[(id_sig, u)]);
            let v: [u8; 32] = xor(&alpha, &sha256(k.to_bytes().as_ref())).try_into().ok()?;
            let f = frame(&m);
            let w = xor(&f, &shake128(&alpha, f.len()));
            let ct = TimeCryptCiphertext::<C> { u, v, w, scheme: sch };
            if is_open(ct.decrypt(&mk(id_sig))) { return Some("a time-lock ciphertext crafted without any key opens under the identity signature".into()); }
            None
        }
        "tc_id_u" => {
            let ct = s.pk.encrypt_time_lock(sch, &m, b"id").ok()?;
            let sig = s.sk.sign(sch, b"id").ok()?;
            let bad = TimeCryptCiphertext::<C> { u: id_pk, v: ct.v, w: ct.w.clone(), scheme: sch };
            if is_open(bad.decrypt(&sig)) || is_open(bad.decrypt(&mk(id_sig))) { return Some("a time-lock ciphertext whose U is the identity opens".into()); }
            if is_open(ct.decrypt(&mk(id_sig))) { return Some("an honest time-lock ciphertext opens under the identity signature".into()); }
            None
        }
        "eg_id_pk" => {
            // encryption to the identity public key is refused on every ElGamal path that returns a Result
            use rand_core::SeedableRng;
            let idk = PublicKey::<C>(id_pk);
            if idk.encrypt_key_el_gamal(&s.sk).is_ok() { return Some("encrypt_key_el_gamal to the identity public key returned Ok".into()); }
            if idk.encrypt_key_el_gamal_with_proof(&s.sk).is_ok() { return Some("encrypt_key_el_gamal_with_proof to the identity public key returned Ok".into()); }
            let rng = || rand_chacha::ChaCha20Rng::from_seed([6u8; 32]);
            let gen = <C as Pairing>::PublicKey::generator() * s.sk.0;
            for g in [None, Some(gen)] {
                if <C as BlsElGamal>::seal_scalar(id_pk, s.sk.0, g, None, rng()).is_ok() { return Some("seal_scalar to the identity public key returned Ok".into()); }
                if <C as BlsElGamal>::seal_scalar_with_proof(id_pk, s.sk.0, g, None, rng()).is_ok() { return Some("seal_scalar_with_proof to the identity public key returned Ok".into()); }
            }
            if <C as BlsElGamal>::seal_scalar(s.pk.0, s.sk.0, Some(id_pk), None, rng()).is_ok() { return Some("seal_scalar with the identity as generator returned Ok".into()); }
            if <C as BlsElGamal>::seal_point(id_pk, gen, None, rng()).is_ok() { return Some("seal_point to the identity public key returned Ok".into()); }
            None
        }
        _ => {
            let ct = s.pk.sign_crypt(sch, &m);
            for (what, bad) in [("U", SignCryptCiphertext::<C> { u: id_pk, v: ct.v.clone(), w: ct.w, scheme: sch }), ("W", SignCryptCiphertext::<C> { u: ct.u, v: ct.v.clone(), w: id_sig, scheme: sch }), ("U and W", SignCryptCiphertext::<C> { u: id_pk, v: ct.v.clone(), w: id_sig, scheme: sch })] {
                if bool::from(bad.is_valid()) || is_open(bad.decrypt(&s.sk)) { return Some(format!("a signcryption ciphertext whose {} is the identity is accepted", what)); }
            }
            None
        }
    }
}

fn is_open<T: Into<Option<Vec<u8>>>>(o: T) -> bool { let x: Option<Vec<u8>> = o.into(); x.is_some() }

//! Witness families: concrete candidate inputs run against the REAL crate (path dependency on
//! /repo's current tree).  `witness search <property>` prints `TRIED n` and, for the first
//! candidate whose observed behaviour contradicts the property, `FAIL {json}`.
//! `witness replay '{json}'` re-runs exactly that candidate and prints REPRODUCED / NOT-REPRODUCED.
//! Built with debug assertions and overflow checks ON (the "checked" build of C17).
use blsful::inner_types::*;
use blsful::*;
use serde_json::{json, Value};
use std::panic::{catch_unwind, AssertUnwindSafe};

mod fam;
mod fam2;

/// candidates of both family groups; `run` dispatches on the candidate's `call`
fn candidates(prop: &str) -> Vec<Value> { let mut v = fam::candidates(prop); v.extend(fam2::candidates(prop)); v }
fn run(c: &Value) -> Option<String> {
    match guarded(|| fam2::run(c)) {
        Ok(Some(o)) => o,
        Ok(None) => fam::run(c),
        Err(p) => Some(format!("panicked: {}", p)),
    }
}

fn main() {
    let args: Vec<String> = std::env::args().collect();
    std::panic::set_hook(Box::new(|_| {}));
    if args.len() < 3 {
        eprintln!("usage: witness search <property> | replay <json>");
        std::process::exit(2);
    }
    match args[1].as_str() {
        "search" => {
            let cands = candidates(&args[2]);
            // failing inputs of recorded known findings (partial objects): skipped, they reproduce by definition
            let excl: Vec<Value> = std::env::var("VERIF_WITNESS_EXCLUDE").ok().and_then(|s| serde_json::from_str(&s).ok()).unwrap_or_default();
            let mut n = 0;
            for c in cands {
                if excl.iter().any(|e| e.as_object().map(|o| !o.is_empty() && o.iter().all(|(k, v)| c.get(k) == Some(v))).unwrap_or(false)) { continue; }
                n += 1;
                if let Some(obs) = run(&c) {
                    println!("TRIED {}", n);
                    let mut c2 = c.clone();
                    c2["observed"] = json!(obs);
                    println!("FAIL {}", c2);
                    return;
                }
            }
            println!("TRIED {}", n);
        }
        "replay" => {
            let c: Value = serde_json::from_str(&args[2]).expect("json");
            match run(&c) {
                Some(obs) => println!("REPRODUCED: {} -> {}", c["call"], obs),
                None => println!("NOT-REPRODUCED: {} behaves as the property requires on the current tree", c["call"]),
            }
        }
        _ => std::process::exit(2),
    }
}

pub fn guarded<T>(f: impl FnOnce() -> T) -> Result<T, String> {
    catch_unwind(AssertUnwindSafe(f)).map_err(|e| {
        if let Some(s) = e.downcast_ref::<String>() { s.clone() } else if let Some(s) = e.downcast_ref::<&str>() { s.to_string() } else { "panic".to_string() }
    })
}
#[allow(dead_code)]
fn unused(_: Scalar, _: G1Projective, _: SecretKey<Bls12381G1Impl>) {}

// C01/C02 (implementor unit): both concrete implementors feed EVERY (signature, key) pair, in
// order, to the Miller loop and hash to their signature group — i.e. they meet the abstract
// Pairing / HashToPoint contracts the generic unit assumes.
pub fn c01_g1_impl(m: &[u8], d: &[u8], points: &[(G1Projective, G2Projective)])
{
    let h = Bls12381G1Impl__hash_to_point(m, d);
    assert(h == g1_h2c(XMD_SHA256(), m@, d@));
    let g = Bls12381G1Impl__pairing(points);
    assert(g.dl() == pair_sum_12(points@));
}
pub fn c01_g2_impl(m: &[u8], d: &[u8], points: &[(G2Projective, G1Projective)])
{
    let h = Bls12381G2Impl__hash_to_point(m, d);
    assert(h == g2_h2c(XMD_SHA256(), m@, d@));
    let g = Bls12381G2Impl__pairing(points);
    assert(g.dl() == pair_sum_21(points@));
}

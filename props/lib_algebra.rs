// ---------------------------------------------------------------------------------------------
// props/lib_algebra.rs — PROVED lemmas shared by the property harnesses (no assumptions here).
// ---------------------------------------------------------------------------------------------

pub proof fn lemma_pair_sum_1(a: (Sig, Pk))
    ensures pair_sum(seq![a]) == fmul(a.0.dl(), a.1.dl())
{
    broadcast use ring;
    let s = seq![a];
    assert(s.drop_last() =~= Seq::<(Sig, Pk)>::empty());
    assert(s.last() == a);
    reveal_with_fuel(pair_sum, 2);
    assert(pair_sum(s.drop_last()) == 0);
    assert(fadd(0, fmul(a.0.dl(), a.1.dl())) == fadd(fmul(a.0.dl(), a.1.dl()), 0));
}

pub proof fn lemma_pair_sum_2(a: (Sig, Pk), b: (Sig, Pk))
    ensures pair_sum(seq![a, b]) == fadd(fmul(a.0.dl(), a.1.dl()), fmul(b.0.dl(), b.1.dl()))
{
    let s = seq![a, b];
    assert(s.drop_last() =~= seq![a]);
    assert(s.last() == b);
    lemma_pair_sum_1(a);
}

/// appending one term
pub proof fn lemma_pair_sum_push(s: Seq<(Sig, Pk)>, a: (Sig, Pk))
    ensures pair_sum(s.push(a)) == fadd(pair_sum(s), fmul(a.0.dl(), a.1.dl()))
{
    assert(s.push(a).drop_last() =~= s);
    assert(s.push(a).last() == a);
}

/// CoreVerify equation in discrete-log form:  e(H, pk) * e(sig, -G) == 1  <==>  h * X == s
pub proof fn lemma_cv_eq_iff(pk: Pk, sig: Sig, m: Seq<u8>, d: Seq<u8>)
    ensures cv_eq(pk, sig, m, d) <==> fmul(hp(m, d).dl(), pk.dl()) == sig.dl()
{
    broadcast use ring;
    let h = hp(m, d).dl();
    lemma_pair_sum_2((hp(m, d), pk), (sig, pk_of(fneg(1))));
    assert(cv_pairs(pk, sig, m, d) =~= seq![(hp(m, d), pk), (sig, pk_of(fneg(1)))]);
    assert(pk_of(fneg(1)).dl() == fneg(1));
    // s * (-1) == -s
    lemma_mul_neg(sig.dl(), 1);
    assert(fmul(sig.dl(), fneg(1)) == fneg(sig.dl()));
    lemma_sub_zero_iff(fmul(h, pk.dl()), sig.dl());
}

/// a non-zero key gives a non-identity public key and, with H != O, a non-identity signature
pub proof fn lemma_honest_nonzero(h: int, x: int)
    requires inr(h), inr(x), h != 0, x != 0,
    ensures fmul(h, x) != 0, fmul(1, x) == x,
{
    broadcast use ring;
    if fmul(h, x) == 0 { lemma_no_zero_div(h, x); }
    assert(fmul(1, x) == fmul(x, 1));
}

/// proof-of-knowledge acceptance equation in discrete-log form
pub proof fn lemma_pok_eq_iff2(u: Sig, v: Sig, pk: Pk, y: Scalar, m: Seq<u8>, d: Seq<u8>)
    ensures pok_eq(u, v, pk, y, m, d) <==> fadd(v.dl(), fmul(fadd(u.dl(), fmul(hp(m, d).dl(), y.val())), pk.dl())) == 0
{
    lemma_pair_sum_2((v, pk_of(1)), (sig_add(u, sig_mul(hp(m, d), y)), pk));
    assert(pok_pairs(u, v, pk, y, m, d) =~= seq![(v, pk_of(1)), (sig_add(u, sig_mul(hp(m, d), y)), pk)]);
    axiom_r_gt_1();
    assert(pk_of(1).dl() == 1);
    lemma_mul_one(v.dl());
}

/// (a + b) + (c + d) == (a + c) + (b + d)      (explicit steps: no ring broadcast, stable)
pub proof fn lemma_add_swap4(a: int, b: int, c: int, d: int)
    ensures fadd(fadd(a, b), fadd(c, d)) == fadd(fadd(a, c), fadd(b, d))
{
    lemma_add_assoc(a, b, fadd(c, d));
    lemma_add_assoc(b, c, d);
    lemma_add_comm(b, c);
    lemma_add_assoc(c, b, d);
    lemma_add_assoc(a, c, fadd(b, d));
}
/// -(p + q) == -p + -q
pub proof fn lemma_neg_add(p: int, q: int)
    requires inr(p), inr(q),
    ensures fneg(fadd(p, q)) == fadd(fneg(p), fneg(q))
{
    lemma_add_swap4(p, q, fneg(p), fneg(q));
    lemma_add_neg(p); lemma_add_neg(q);
    lemma_add_zero(0);
    lemma_range_add(p, q); lemma_range_neg(p); lemma_range_neg(q); lemma_range_add(fneg(p), fneg(q));
    axiom_r_gt_1();
    lemma_neg_unique(fadd(p, q), fadd(fneg(p), fneg(q)));
}

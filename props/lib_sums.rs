// ---------------------------------------------------------------------------------------------
// props/lib_sums.rs — PROVED lemmas about sums over lists of any length (induction, no bound).
// ---------------------------------------------------------------------------------------------

/// sum_i h(m_i, d) * dl(pk_i): the left-hand side of CoreAggregateVerify in discrete-log form
pub open spec fn sum_hx<B: AsRefBytes>(l: Seq<(Pk, B)>, d: Seq<u8>) -> int
    decreases l.len()
{
    if l.len() == 0 { 0 } else { fadd(sum_hx(l.drop_last(), d), fmul(hp(l.last().1.bytes(), d).dl(), l.last().0.dl())) }
}
pub open spec fn sum_hx_aug(l: Seq<(Pk, &[u8])>, d: Seq<u8>) -> int
    decreases l.len()
{
    if l.len() == 0 { 0 } else { fadd(sum_hx_aug(l.drop_last(), d), fmul(hp(aug_msg(l.last().0, l.last().1@), d).dl(), l.last().0.dl())) }
}

pub proof fn lemma_sum_ranges<B: AsRefBytes>(l: Seq<(Pk, B)>, d: Seq<u8>)
    ensures inr(sum_hx(l, d))
    decreases l.len()
{
    axiom_r_gt_1();
    if l.len() > 0 { lemma_sum_ranges(l.drop_last(), d); }
}
pub proof fn lemma_sum_aug_range(l: Seq<(Pk, &[u8])>, d: Seq<u8>)
    ensures inr(sum_hx_aug(l, d))
    decreases l.len()
{
    axiom_r_gt_1();
    if l.len() > 0 { lemma_sum_aug_range(l.drop_last(), d); }
}

pub proof fn lemma_pair_sum_agg<B: AsRefBytes>(l: Seq<(Pk, B)>, d: Seq<u8>)
    ensures pair_sum(agg_pairs(l, d)) == sum_hx(l, d)
    decreases l.len()
{
    if l.len() > 0 {
        lemma_pair_sum_agg(l.drop_last(), d);
        assert(agg_pairs(l, d).drop_last() =~= agg_pairs(l.drop_last(), d));
    }
}
pub proof fn lemma_pair_sum_aug(l: Seq<(Pk, &[u8])>, d: Seq<u8>)
    ensures pair_sum(aug_pairs(l, d)) == sum_hx_aug(l, d)
    decreases l.len()
{
    if l.len() > 0 {
        lemma_pair_sum_aug(l.drop_last(), d);
        assert(aug_pairs(l, d).drop_last() =~= aug_pairs(l.drop_last(), d));
    }
}

/// (S ++ [(sig, -G)]) sums to zero  <==>  S sums to dl(sig)
pub proof fn lemma_push_neg_gen(s: Seq<(Sig, Pk)>, sig: Sig)
    requires inr(pair_sum(s)),
    ensures (pair_sum(s.push((sig, pk_of(fneg(1))))) == 0) <==> (pair_sum(s) == sig.dl())
{
    broadcast use ring;
    lemma_pair_sum_push(s, (sig, pk_of(fneg(1))));
    lemma_mul_neg(sig.dl(), 1);
    lemma_sub_zero_iff(pair_sum(s), sig.dl());
}

pub proof fn lemma_agg_eq_iff<B: AsRefBytes>(l: Seq<(Pk, B)>, sig: Sig, d: Seq<u8>)
    ensures (pair_sum(agg_all_pairs(l, sig, d)) == 0) <==> (sum_hx(l, d) == sig.dl())
{
    lemma_pair_sum_agg(l, d);
    lemma_sum_ranges(l, d);
    lemma_push_neg_gen(agg_pairs(l, d), sig);
}
pub proof fn lemma_aug_eq_iff(l: Seq<(Pk, &[u8])>, sig: Sig, d: Seq<u8>)
    ensures (pair_sum(aug_pairs(l, d).push((sig, pk_of(fneg(1))))) == 0) <==> (sum_hx_aug(l, d) == sig.dl())
{
    lemma_pair_sum_aug(l, d);
    lemma_sum_aug_range(l, d);
    lemma_push_neg_gen(aug_pairs(l, d), sig);
}

/// the points of the first n signatures summed in list order:  s[0] + s[1] + ... + s[n-1]
pub open spec fn plain_sum(s: Seq<Signature>, n: int) -> int
    decreases n
{
    if n <= 0 { 0 } else { fadd(plain_sum(s, n - 1), sig_point(s[n - 1]).dl()) }
}
pub proof fn lemma_plain_sum_range(s: Seq<Signature>, n: int)
    ensures inr(plain_sum(s, n)), inr(tail_sum(s, n))
    decreases n
{
    axiom_r_gt_1();
    if n > 0 { lemma_plain_sum_range(s, n - 1); }
}
/// what try_from computes, (s[1]+...+s[n-1]) + s[0], is the plain group sum
pub proof fn lemma_accumulated_is_plain_sum(s: Seq<Signature>, n: int)
    requires 1 <= n <= s.len(),
    ensures fadd(tail_sum(s, n), sig_point(s[0]).dl()) == plain_sum(s, n)
    decreases n
{
    broadcast use ring;
    if n == 1 {
        reveal_with_fuel(plain_sum, 2);
        assert(plain_sum(s, 1) == fadd(0, sig_point(s[0]).dl()));
    } else {
        lemma_accumulated_is_plain_sum(s, n - 1);
        lemma_plain_sum_range(s, n - 1);
        let a = tail_sum(s, n - 1);
        let b = sig_point(s[n - 1]).dl();
        let c = sig_point(s[0]).dl();
        lemma_add_assoc(a, b, c); lemma_add_comm(b, c); lemma_add_assoc(a, c, b);
    }
}

// ---------------------------------------------------------------------------------------------
// props/lib_sums.rs — PROVED lemmas about sums over lists of any length (induction, no bound).
// ---------------------------------------------------------------------------------------------

/// sum_i h(m_i, d) * dl(pk_i): the left-hand side of CoreAggregateVerify in discrete-log form
pub open spec fn sum_hx<B: AsRefBytes>(l: Seq<(Pk, B)>, d: Seq<u8>) -> int
    decreases l.len()
{
    if l.len() == 0 { 0 } else { fadd(sum_hx(l.drop_last(), d), fmul(hp(l.last().1.bytes(), d).dl(), l.last().0.dl())) }
}
pub open spec fn sum_hx_aug(l: Seq<(Pk, &[u8])>, d: Seq<u8>) -> int
    decreases l.len()
{
    if l.len() == 0 { 0 } else { fadd(sum_hx_aug(l.drop_last(), d), fmul(hp(aug_msg(l.last().0, l.last().1@), d).dl(), l.last().0.dl())) }
}

pub proof fn lemma_sum_ranges<B: AsRefBytes>(l: Seq<(Pk, B)>, d: Seq<u8>)
    ensures inr(sum_hx(l, d))
    decreases l.len()
{
    axiom_r_gt_1();
    if l.len() > 0 { lemma_sum_ranges(l.drop_last(), d); }
}
pub proof fn lemma_sum_aug_range(l: Seq<(Pk, &[u8])>, d: Seq<u8>)
    ensures inr(sum_hx_aug(l, d))
    decreases l.len()
{
    axiom_r_gt_1();
    if l.len() > 0 { lemma_sum_aug_range(l.drop_last(), d); }
}

pub proof fn lemma_pair_sum_agg<B: AsRefBytes>(l: Seq<(Pk, B)>, d: Seq<u8>)
    ensures pair_sum(agg_pairs(l, d)) == sum_hx(l, d)
    decreases l.len()
{
    if l.len() > 0 {
        lemma_pair_sum_agg(l.drop_last(), d);
        assert(agg_pairs(l, d).drop_last() =~= agg_pairs(l.drop_last(), d));
    }
}
pub proof fn lemma_pair_sum_aug(l: Seq<(Pk, &[u8])>, d: Seq<u8>)
    ensures pair_sum(aug_pairs(l, d)) == sum_hx_aug(l, d)
    decreases l.len()
{
    if l.len() > 0 {
        lemma_pair_sum_aug(l.drop_last(), d);
        assert(aug_pairs(l, d).drop_last() =~= aug_pairs(l.drop_last(), d));
    }
}

/// (S ++ [(sig, -G)]) sums to zero  <==>  S sums to dl(sig)
pub proof fn lemma_push_neg_gen(s: Seq<(Sig, Pk)>, sig: Sig)
    requires inr(pair_sum(s)),
    ensures (pair_sum(s.push((sig, pk_of(fneg(1))))) == 0) <==> (pair_sum(s) == sig.dl())
{
    broadcast use ring;
    lemma_pair_sum_push(s, (sig, pk_of(fneg(1))));
    lemma_mul_neg(sig.dl(), 1);
    lemma_sub_zero_iff(pair_sum(s), sig.dl());
}

pub proof fn lemma_agg_eq_iff<B: AsRefBytes>(l: Seq<(Pk, B)>, sig: Sig, d: Seq<u8>)
    ensures (pair_sum(agg_all_pairs(l, sig, d)) == 0) <==> (sum_hx(l, d) == sig.dl())
{
    lemma_pair_sum_agg(l, d);
    lemma_sum_ranges(l, d);
    lemma_push_neg_gen(agg_pairs(l, d), sig);
}
pub proof fn lemma_aug_eq_iff(l: Seq<(Pk, &[u8])>, sig: Sig, d: Seq<u8>)
    ensures (pair_sum(aug_pairs(l, d).push((sig, pk_of(fneg(1))))) == 0) <==> (sum_hx_aug(l, d) == sig.dl())
{
    lemma_pair_sum_aug(l, d);
    lemma_sum_aug_range(l, d);
    lemma_push_neg_gen(aug_pairs(l, d), sig);
}

/// the points of the first n signatures summed in list order:  s[0] + s[1] + ... + s[n-1]
pub open spec fn plain_sum(s: Seq<Signature>, n: int) -> int
    decreases n
{
    if n <= 0 { 0 } else { fadd(plain_sum(s, n - 1), sig_point(s[n - 1]).dl()) }
}
pub proof fn lemma_plain_sum_range(s: Seq<Signature>, n: int)
    ensures inr(plain_sum(s, n)), inr(tail_sum(s, n))
    decreases n
{
    axiom_r_gt_1();
    if n > 0 { lemma_plain_sum_range(s, n - 1); }
}
/// what try_from computes, (s[1]+...+s[n-1]) + s[0], is the plain group sum
pub proof fn lemma_accumulated_is_plain_sum(s: Seq<Signature>, n: int)
    requires 1 <= n <= s.len(),
    ensures fadd(tail_sum(s, n), sig_point(s[0]).dl()) == plain_sum(s, n)
    decreases n
{
    broadcast use ring;
    if n == 1 {
        reveal_with_fuel(plain_sum, 2);
        assert(plain_sum(s, 1) == fadd(0, sig_point(s[0]).dl()));
    } else {
        lemma_accumulated_is_plain_sum(s, n - 1);
        lemma_plain_sum_range(s, n - 1);
        let a = tail_sum(s, n - 1);
        let b = sig_point(s[n - 1]).dl();
        let c = sig_point(s[0]).dl();
        lemma_add_assoc(a, b, c); lemma_add_comm(b, c); lemma_add_assoc(a, c, b);
    }
}

// ----- the draft's aggregate decision (shared by C03 and C06) --------------------------------
/// reference: every key valid, (Basic: messages pairwise distinct), sum_i h(m_i) X_i == dl(sig)
pub open spec fn ietf_aggregate_verify(s: SignatureSchemes, l: Seq<(Pk, &[u8])>, sig: Sig) -> bool {
    &&& forall|i: int| 0 <= i < l.len() ==> (#[trigger] l[i]).0.dl() != 0
    &&& match s {
        SignatureSchemes::Basic => msgs_distinct(l) && sum_hx(l, DST_BASIC()) == sig.dl(),
        SignatureSchemes::MessageAugmentation => sum_hx_aug(l, DST_AUG()) == sig.dl(),
        SignatureSchemes::ProofOfPossession => sum_hx(l, DST_POP_SIG()) == sig.dl(),
    }
}

pub proof fn lemma_distinct_prefix_iff<B: AsRefBytes>(l: Seq<(Pk, B)>, n: int)
    requires 0 <= n <= l.len(),
    ensures distinct_prefix(l, n) <==> (forall|i: int, j: int| 0 <= i < j < n ==> (#[trigger] l[i]).1.bytes() != (#[trigger] l[j]).1.bytes()),
    decreases n
{
    if n > 0 {
        lemma_distinct_prefix_iff(l, n - 1);
        lemma_seen_iff(l, n - 1, l[n - 1].1.bytes());
    }
}
pub proof fn lemma_seen_iff<B: AsRefBytes>(l: Seq<(Pk, B)>, n: int, b: Seq<u8>)
    requires 0 <= n <= l.len(),
    ensures msg_seen(l, n, b) <==> (exists|i: int| 0 <= i < n && (#[trigger] l[i]).1.bytes() == b),
    decreases n
{
    if n > 0 {
        lemma_seen_iff(l, n - 1, b);
        if msg_seen(l, n, b) {
            if l[n - 1].1.bytes() == b { assert(0 <= n - 1 < n && l[n - 1].1.bytes() == b); }
            else { let i = choose|i: int| 0 <= i < n - 1 && (#[trigger] l[i]).1.bytes() == b; assert(0 <= i < n && l[i].1.bytes() == b); }
        }
        if exists|i: int| 0 <= i < n && (#[trigger] l[i]).1.bytes() == b {
            let i = choose|i: int| 0 <= i < n && (#[trigger] l[i]).1.bytes() == b;
            if i < n - 1 { assert(0 <= i < n - 1 && l[i].1.bytes() == b); }
        }
    }
}


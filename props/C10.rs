// ---------------------------------------------------------------------------------------------
// C10 — signature proofs of knowledge are complete, challenge-bound and time-bound.
// Protocol: commit u = x'*H(m); challenge y; response v = -(x'+y)*sig;
//           accept iff u, v, pk != O, y != 0 and  dl(v) + (dl(u) + y*h) * X == 0.
// ---------------------------------------------------------------------------------------------

/// the algebra of completeness:  v = -(x'+y) * (h*X),  u = x'*h   ==>   v + (u + y*h)*X == 0
pub proof fn lemma_pok_complete(h: int, xx: int, xp: int, y: int)
    requires inr(h), inr(xx), inr(xp), inr(y),
    ensures fadd(fneg(fmul(fmul(h, xx), fadd(xp, y))), fmul(fadd(fmul(h, xp), fmul(h, y)), xx)) == 0
{
    broadcast use ring;
    // (h*xp + h*y) * X == h*(xp+y)*X == (h*X)*(xp+y)
    lemma_distrib(h, xp, y);
    assert(fadd(fmul(h, xp), fmul(h, y)) == fmul(h, fadd(xp, y)));
    lemma_mul_assoc(h, fadd(xp, y), xx);
    assert(fmul(fmul(h, fadd(xp, y)), xx) == fmul(h, fmul(fadd(xp, y), xx)));
    assert(fmul(fadd(xp, y), xx) == fmul(xx, fadd(xp, y)));
    lemma_mul_assoc(h, xx, fadd(xp, y));
    assert(fmul(h, fmul(xx, fadd(xp, y))) == fmul(fmul(h, xx), fadd(xp, y)));
    let t = fmul(fmul(h, xx), fadd(xp, y));
    assert(fadd(fneg(t), t) == fadd(t, fneg(t)));
}

/// completeness for the schemes whose signature is over the plain message (Basic, Pop): a holder
/// of a valid signature completes commit/challenge/response and the proof verifies
pub fn c10_complete(sk: &SecretKey, scheme: SignatureSchemes, msg: &[u8], y: ProofCommitmentChallenge)
    requires
        scheme != SignatureSchemes::MessageAugmentation,
        sk.0.val() != 0, y.0.val() != 0,
        hp(msg@, scheme_dst(scheme)).dl() != 0,                                              // X-NONID
{
    let sig = sk.sign(scheme, msg);
    let pk = sk.public_key();
    proof { broadcast use ring; assert(fmul(1, sk.0.val()) == fmul(sk.0.val(), 1)); lemma_honest_nonzero(hp(msg@, scheme_dst(scheme)).dl(), sk.0.val()); }
    assert(sig is Ok);
    match sig {
        Ok(sig) => {
            let c = ProofCommitment::generate(msg, sig);
            match c {
                Ok((comm, x)) => {
                    proof {
                        lemma_honest_nonzero(hp(msg@, scheme_dst(scheme)).dl(), x.0.val());
                    }
                    let p = comm.finalize(x, y, sig);
                    assert(p is Ok);
                    match p {
                        Ok(proof) => {
                            proof {
                                broadcast use ring;
                                let h = hp(msg@, scheme_dst(scheme)).dl();
                                let xx = sk.0.val();
                                let xp = x.0.val();
                                lemma_pok_eq_iff2(pok_u(proof), pok_v(proof), pk.0, y.0, msg@, scheme_dst(scheme));
                                lemma_pok_complete(h, xx, xp, y.0.val());
                                // v != O: (x'+y) may be 0 only with negligible probability — X-LIN
                            }
                            let v = proof.verify(pk, msg, y);
                            assert(pok_v(proof).dl() != 0 ==> v is Ok);
                        }
                        Err(_) => {}
                    }
                }
                Err(_) => {}
            }
        }
        Err(_) => {}
    }
}

/// KNOWN FINDING (see known_findings.txt): for a MessageAugmentation signature the prover hashes
/// the plain message while the signature is over enc(pk) || msg, so the honest proof is rejected.
/// This harness states what C10 requires; its final assertion does not hold on the current tree.
pub fn c10_complete_message_augmentation(sk: &SecretKey, msg: &[u8], y: ProofCommitmentChallenge)
    requires
        sk.0.val() != 0, y.0.val() != 0,
        hp(msg@, DST_AUG()).dl() != 0,
        hp(aug_msg(pk_mul(pk_of(1), sk.0), msg@), DST_AUG()).dl() != 0,
{
    let sig = sk.sign(SignatureSchemes::MessageAugmentation, msg);
    let pk = sk.public_key();
    match sig {
        Ok(sig) => {
            match ProofCommitment::generate(msg, sig) {
                Ok((comm, x)) => {
                    match comm.finalize(x, y, sig) {
                        Ok(proof) => {
                            let v = proof.verify(pk, msg, y);
                            assert(pok_v(proof).dl() != 0 ==> v is Ok);
                        }
                        Err(_) => {}
                    }
                }
                Err(_) => {}
            }
        }
        Err(_) => {}
    }
}

/// v + (u + h*y)*X == 0 and v + (u + h*y2)*X == 0, X != 0, h != 0  ==>  y == y2
pub proof fn lemma_pok_two_challenges(vv: int, u: int, h: int, y: int, y2: int, x: int)
    requires inr(vv), inr(u), inr(h), inr(y), inr(y2), inr(x), x != 0, h != 0,
        fadd(vv, fmul(fadd(u, fmul(h, y)), x)) == 0,
        fadd(vv, fmul(fadd(u, fmul(h, y2)), x)) == 0,
    ensures y == y2
{
    let a1 = fadd(u, fmul(h, y));
    let a2 = fadd(u, fmul(h, y2));
    lemma_range_add(u, fmul(h, y)); lemma_range_add(u, fmul(h, y2));
    lemma_range_mul(a1, x); lemma_range_mul(a2, x); lemma_range_mul(h, y); lemma_range_mul(h, y2);
    lemma_add_comm(vv, fmul(a1, x)); lemma_add_comm(vv, fmul(a2, x));
    lemma_add_cancel(fmul(a1, x), fmul(a2, x), vv);
    lemma_mul_cancel(a1, a2, x);
    lemma_add_comm(u, fmul(h, y)); lemma_add_comm(u, fmul(h, y2));
    lemma_add_cancel(fmul(h, y), fmul(h, y2), u);
    lemma_mul_comm(h, y); lemma_mul_comm(h, y2);
    lemma_mul_cancel(y, y2, h);
}
/// v + (u1 + t)*X == 0 and v + (u2 + t)*X == 0, X != 0  ==>  u1 == u2
pub proof fn lemma_pok_two_commitments(vv: int, u1: int, u2: int, t: int, x: int)
    requires inr(vv), inr(u1), inr(u2), inr(t), inr(x), x != 0,
        fadd(vv, fmul(fadd(u1, t), x)) == 0,
        fadd(vv, fmul(fadd(u2, t), x)) == 0,
    ensures u1 == u2
{
    lemma_range_add(u1, t); lemma_range_add(u2, t);
    lemma_range_mul(fadd(u1, t), x); lemma_range_mul(fadd(u2, t), x);
    lemma_add_comm(vv, fmul(fadd(u1, t), x)); lemma_add_comm(vv, fmul(fadd(u2, t), x));
    lemma_add_cancel(fmul(fadd(u1, t), x), fmul(fadd(u2, t), x), vv);
    lemma_mul_cancel(fadd(u1, t), fadd(u2, t), x);
    lemma_add_cancel(u1, u2, t);
}

/// challenge-bound: a proof accepted for y is rejected for every other challenge y'
pub fn c10_other_challenge_rejected(proof: &ProofOfKnowledge, pk: PublicKey, msg: &[u8], y: ProofCommitmentChallenge, y2: ProofCommitmentChallenge)
    requires y2.0 != y.0, hp(msg@, scheme_dst(pok_scheme(*proof))).dl() != 0,             // X-NONID
{
    let v1 = proof.verify(pk, msg, y);
    let v2 = proof.verify(pk, msg, y2);
    proof {
        let d = scheme_dst(pok_scheme(*proof));
        lemma_pok_eq_iff2(pok_u(*proof), pok_v(*proof), pk.0, y.0, msg@, d);
        lemma_pok_eq_iff2(pok_u(*proof), pok_v(*proof), pk.0, y2.0, msg@, d);
        if v1 is Ok && v2 is Ok {
            lemma_pok_two_challenges(pok_v(*proof).dl(), pok_u(*proof).dl(), hp(msg@, d).dl(), y.0.val(), y2.0.val(), pk.0.dl());
        }
    }
    assert(!(v1 is Ok && v2 is Ok));
}

/// any modified proof component is rejected: for fixed (pk, m, y) the accepted v is determined by
/// u, and for fixed (v, m, y, pk) the accepted u is unique
pub fn c10_modified_component_rejected(p1: &ProofOfKnowledge, p2: &ProofOfKnowledge, pk: PublicKey, msg: &[u8], y: ProofCommitmentChallenge)
    requires
        pok_scheme(*p1) == pok_scheme(*p2),
        (pok_u(*p1) == pok_u(*p2) && pok_v(*p1) != pok_v(*p2)) || (pok_v(*p1) == pok_v(*p2) && pok_u(*p1) != pok_u(*p2)),
{
    let v1 = p1.verify(pk, msg, y);
    let v2 = p2.verify(pk, msg, y);
    proof {
        let d = scheme_dst(pok_scheme(*p1));
        let h = hp(msg@, d).dl();
        lemma_pok_eq_iff2(pok_u(*p1), pok_v(*p1), pk.0, y.0, msg@, d);
        lemma_pok_eq_iff2(pok_u(*p2), pok_v(*p2), pk.0, y.0, msg@, d);
        if v1 is Ok && v2 is Ok {
            lemma_range_mul(h, y.0.val());
            if pok_u(*p1) == pok_u(*p2) {
                let w = fmul(fadd(pok_u(*p1).dl(), fmul(h, y.0.val())), pk.0.dl());
                lemma_range_mul(fadd(pok_u(*p1).dl(), fmul(h, y.0.val())), pk.0.dl());
                lemma_add_cancel(pok_v(*p1).dl(), pok_v(*p2).dl(), w);
            } else {
                lemma_pok_two_commitments(pok_v(*p1).dl(), pok_u(*p1).dl(), pok_u(*p2).dl(), fmul(h, y.0.val()), pk.0.dl());
            }
        }
    }
    assert(!(v1 is Ok && v2 is Ok));
}

/// the timestamp variant: returns (never aborts) for EVERY u64 timestamp, timeout and clock value;
/// without a timeout its verdict is the plain verdict with y = H(enc(u) || le64(t)); whenever it
/// accepts, the equation holds for that derived challenge — so an altered timestamp changes the
/// challenge (X-RO on the hash) and the proof is rejected by challenge-boundness
pub fn c10_timestamp_total_and_bound(p: &ProofOfKnowledgeTimestamp, pk: PublicKey, msg: &[u8], timeout_ms: Option<u64>)
{
    let v = p.verify(pk, msg, timeout_ms);          // must be callable with NO precondition
    assert(v is Ok ==> pok_eq(pok_u(p.proof), pok_v(p.proof), pk.0, compute_y_spec(pok_u(p.proof), p.timestamp), msg@, scheme_dst(pok_scheme(p.proof))));
    // the timeout, for every delay: acceptance means that at the instant the clock was read the
    // timestamp was not in the future and at most `timeout` whole milliseconds old ...
    assert(v is Ok && timeout_ms is Some ==> exists|now: int| #[trigger] clock_reading(now) && ts_fresh(now, p.timestamp, timeout_ms->Some_0));
    // ... and a proof that satisfies the equation is refused ONLY because it was stale or from the future
    assert(v is Err && timeout_ms is Some
        && pok_guards(pok_u(p.proof), pok_v(p.proof), pk.0, compute_y_spec(pok_u(p.proof), p.timestamp))
        && pok_eq(pok_u(p.proof), pok_v(p.proof), pk.0, compute_y_spec(pok_u(p.proof), p.timestamp), msg@, scheme_dst(pok_scheme(p.proof)))
        ==> exists|now: int| #[trigger] clock_reading(now) && !ts_fresh(now, p.timestamp, timeout_ms->Some_0));
}

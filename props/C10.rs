// ---------------------------------------------------------------------------------------------
// C10 — signature proofs of knowledge are complete, challenge-bound and time-bound.
// Protocol: commit u = x'*H(m); challenge y; response v = -(x'+y)*sig;
//           accept iff u, v, pk != O, y != 0 and  dl(v) + (dl(u) + y*h) * X == 0.
// ---------------------------------------------------------------------------------------------

/// the acceptance equation in discrete-log form
pub proof fn lemma_pok_eq_iff(u: Sig, v: Sig, pk: Pk, y: Scalar, m: Seq<u8>, d: Seq<u8>)
    ensures pok_eq(u, v, pk, y, m, d) <==> fadd(v.dl(), fmul(fadd(u.dl(), fmul(hp(m, d).dl(), y.val())), pk.dl())) == 0
{
    broadcast use ring;
    lemma_pair_sum_2((v, pk_of(1)), (sig_add(u, sig_mul(hp(m, d), y)), pk));
    assert(pok_pairs(u, v, pk, y, m, d) =~= seq![(v, pk_of(1)), (sig_add(u, sig_mul(hp(m, d), y)), pk)]);
    axiom_r_gt_1();
    assert(pk_of(1).dl() == 1);
    assert(fmul(v.dl(), 1) == v.dl());
}

/// the algebra of completeness:  v = -(x'+y) * (h*X),  u = x'*h   ==>   v + (u + y*h)*X == 0
pub proof fn lemma_pok_complete(h: int, xx: int, xp: int, y: int)
    requires inr(h), inr(xx), inr(xp), inr(y),
    ensures fadd(fneg(fmul(fmul(h, xx), fadd(xp, y))), fmul(fadd(fmul(h, xp), fmul(h, y)), xx)) == 0
{
    broadcast use ring;
    // (h*xp + h*y) * X == h*(xp+y)*X == (h*X)*(xp+y)
    assert(fadd(fmul(h, xp), fmul(h, y)) == fmul(h, fadd(xp, y)));
    assert(fmul(fmul(h, fadd(xp, y)), xx) == fmul(h, fmul(fadd(xp, y), xx)));
    assert(fmul(fadd(xp, y), xx) == fmul(xx, fadd(xp, y)));
    assert(fmul(h, fmul(xx, fadd(xp, y))) == fmul(fmul(h, xx), fadd(xp, y)));
    let t = fmul(fmul(h, xx), fadd(xp, y));
    assert(fadd(fneg(t), t) == fadd(t, fneg(t)));
}

/// completeness for the schemes whose signature is over the plain message (Basic, Pop): a holder
/// of a valid signature completes commit/challenge/response and the proof verifies
pub fn c10_complete(sk: &SecretKey, scheme: SignatureSchemes, msg: &[u8], y: ProofCommitmentChallenge)
    requires
        scheme != SignatureSchemes::MessageAugmentation,
        sk.0.val() != 0, y.0.val() != 0,
        hp(msg@, scheme_dst(scheme)).dl() != 0,                                              // X-NONID
{
    let sig = sk.sign(scheme, msg);
    let pk = sk.public_key();
    proof { broadcast use ring; assert(fmul(1, sk.0.val()) == fmul(sk.0.val(), 1)); lemma_honest_nonzero(hp(msg@, scheme_dst(scheme)).dl(), sk.0.val()); }
    assert(sig is Ok);
    match sig {
        Ok(sig) => {
            let c = ProofCommitment::generate(msg, sig);
            match c {
                Ok((comm, x)) => {
                    proof {
                        lemma_honest_nonzero(hp(msg@, scheme_dst(scheme)).dl(), x.0.val());
                    }
                    let p = comm.finalize(x, y, sig);
                    assert(p is Ok);
                    match p {
                        Ok(proof) => {
                            proof {
                                broadcast use ring;
                                let h = hp(msg@, scheme_dst(scheme)).dl();
                                let xx = sk.0.val();
                                let xp = x.0.val();
                                lemma_pok_eq_iff(pok_u(proof), pok_v(proof), pk.0, y.0, msg@, scheme_dst(scheme));
                                lemma_pok_complete(h, xx, xp, y.0.val());
                                // v != O: (x'+y) may be 0 only with negligible probability — X-LIN
                            }
                            let v = proof.verify(pk, msg, y);
                            assert(pok_v(proof).dl() != 0 ==> v is Ok);
                        }
                        Err(_) => {}
                    }
                }
                Err(_) => {}
            }
        }
        Err(_) => {}
    }
}

/// KNOWN FINDING (see known_findings.txt): for a MessageAugmentation signature the prover hashes
/// the plain message while the signature is over enc(pk) || msg, so the honest proof is rejected.
/// This harness states what C10 requires; its final assertion does not hold on the current tree.
pub fn c10_complete_message_augmentation(sk: &SecretKey, msg: &[u8], y: ProofCommitmentChallenge)
    requires
        sk.0.val() != 0, y.0.val() != 0,
        hp(msg@, DST_AUG()).dl() != 0,
        hp(aug_msg(pk_mul(pk_of(1), sk.0), msg@), DST_AUG()).dl() != 0,
{
    let sig = sk.sign(SignatureSchemes::MessageAugmentation, msg);
    let pk = sk.public_key();
    match sig {
        Ok(sig) => {
            match ProofCommitment::generate(msg, sig) {
                Ok((comm, x)) => {
                    match comm.finalize(x, y, sig) {
                        Ok(proof) => {
                            let v = proof.verify(pk, msg, y);
                            assert(pok_v(proof).dl() != 0 ==> v is Ok);
                        }
                        Err(_) => {}
                    }
                }
                Err(_) => {}
            }
        }
        Err(_) => {}
    }
}

/// challenge-bound: a proof accepted for y is rejected for every other challenge y'
pub fn c10_other_challenge_rejected(proof: &ProofOfKnowledge, pk: PublicKey, msg: &[u8], y: ProofCommitmentChallenge, y2: ProofCommitmentChallenge)
    requires y2.0 != y.0, hp(msg@, scheme_dst(pok_scheme(*proof))).dl() != 0,             // X-NONID
{
    let v1 = proof.verify(pk, msg, y);
    let v2 = proof.verify(pk, msg, y2);
    proof {
        broadcast use ring;
        let d = scheme_dst(pok_scheme(*proof));
        let h = hp(msg@, d).dl();
        lemma_pok_eq_iff(pok_u(*proof), pok_v(*proof), pk.0, y.0, msg@, d);
        lemma_pok_eq_iff(pok_u(*proof), pok_v(*proof), pk.0, y2.0, msg@, d);
        if v1 is Ok && v2 is Ok {
            // v + (u + y h) X == v + (u + y' h) X  ==>  (u + y h) X == (u + y' h) X ==> y h == y' h ==> y == y'
            let a = fmul(fadd(pok_u(*proof).dl(), fmul(h, y.0.val())), pk.0.dl());
            let b = fmul(fadd(pok_u(*proof).dl(), fmul(h, y2.0.val())), pk.0.dl());
            assert(fadd(a, pok_v(*proof).dl()) == fadd(b, pok_v(*proof).dl()));
            lemma_add_cancel(a, b, pok_v(*proof).dl());
            lemma_mul_cancel(fadd(pok_u(*proof).dl(), fmul(h, y.0.val())), fadd(pok_u(*proof).dl(), fmul(h, y2.0.val())), pk.0.dl());
            assert(fadd(fmul(h, y.0.val()), pok_u(*proof).dl()) == fadd(fmul(h, y2.0.val()), pok_u(*proof).dl()));
            lemma_add_cancel(fmul(h, y.0.val()), fmul(h, y2.0.val()), pok_u(*proof).dl());
            lemma_mul_cancel(y.0.val(), y2.0.val(), h);
        }
    }
    assert(!(v1 is Ok && v2 is Ok));
}

/// any modified proof component or another public key is rejected: for fixed (pk, m, y) the
/// accepted v is determined by u, and for fixed (v, m, y, pk) the accepted u is unique
pub fn c10_modified_component_rejected(p1: &ProofOfKnowledge, p2: &ProofOfKnowledge, pk: PublicKey, msg: &[u8], y: ProofCommitmentChallenge)
    requires
        pok_scheme(*p1) == pok_scheme(*p2),
        (pok_u(*p1) == pok_u(*p2) && pok_v(*p1) != pok_v(*p2)) || (pok_v(*p1) == pok_v(*p2) && pok_u(*p1) != pok_u(*p2)),
{
    let v1 = p1.verify(pk, msg, y);
    let v2 = p2.verify(pk, msg, y);
    proof {
        broadcast use ring;
        let d = scheme_dst(pok_scheme(*p1));
        let h = hp(msg@, d).dl();
        lemma_pok_eq_iff(pok_u(*p1), pok_v(*p1), pk.0, y.0, msg@, d);
        lemma_pok_eq_iff(pok_u(*p2), pok_v(*p2), pk.0, y.0, msg@, d);
        if v1 is Ok && v2 is Ok {
            let w1 = fmul(fadd(pok_u(*p1).dl(), fmul(h, y.0.val())), pk.0.dl());
            let w2 = fmul(fadd(pok_u(*p2).dl(), fmul(h, y.0.val())), pk.0.dl());
            if pok_u(*p1) == pok_u(*p2) {
                assert(fadd(pok_v(*p1).dl(), w1) == fadd(pok_v(*p2).dl(), w1));
                lemma_add_cancel(pok_v(*p1).dl(), pok_v(*p2).dl(), w1);
            } else {
                assert(fadd(w1, pok_v(*p1).dl()) == fadd(w2, pok_v(*p1).dl()));
                lemma_add_cancel(w1, w2, pok_v(*p1).dl());
                lemma_mul_cancel(fadd(pok_u(*p1).dl(), fmul(h, y.0.val())), fadd(pok_u(*p2).dl(), fmul(h, y.0.val())), pk.0.dl());
                lemma_add_cancel(pok_u(*p1).dl(), pok_u(*p2).dl(), fmul(h, y.0.val()));
            }
        }
    }
    assert(!(v1 is Ok && v2 is Ok));
}

/// the timestamp variant: returns (never aborts) for EVERY u64 timestamp, timeout and clock value;
/// without a timeout its verdict is the plain verdict with y = H(enc(u) || le64(t)); whenever it
/// accepts, the equation holds for that derived challenge — so an altered timestamp changes the
/// challenge (X-RO on the hash) and the proof is rejected by challenge-boundness
pub fn c10_timestamp_total_and_bound(p: &ProofOfKnowledgeTimestamp, pk: PublicKey, msg: &[u8], timeout_ms: Option<u64>)
{
    let v = p.verify(pk, msg, timeout_ms);          // must be callable with NO precondition
    assert(v is Ok ==> pok_eq(pok_u(p.proof), pok_v(p.proof), pk.0, compute_y_spec(pok_u(p.proof), p.timestamp), msg@, scheme_dst(pok_scheme(p.proof))));
}

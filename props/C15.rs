// ---------------------------------------------------------------------------------------------
// C15 — every value survives every (hand-written) encoding unchanged.
// Scope: the byte codecs blsful implements itself.  serde-derived forms are L-SERDE (assumed).
// ---------------------------------------------------------------------------------------------
pub fn c15_secret_key_bytes_round_trip(sk: &SecretKey)
    requires sk.0.val() != 0,
{
    let be = sk.to_be_bytes();
    let le = sk.to_le_bytes();
    // fixed length, deterministic, big-endian is the reverse of little-endian
    assert(be@.len() == 32 && le@.len() == 32);
    assert(be@ == le@.reverse());
    proof {
        lemma_reverse_reverse(scalar_le(sk.0));
        lemma_all_zero_reverse(scalar_le(sk.0));
    }
    let b = SecretKey::from_be_bytes(&be);
    let l = SecretKey::from_le_bytes(&le);
    assert(b.is_some_spec() && b.value().0 == sk.0);
    assert(l.is_some_spec() && l.value().0 == sk.0);
    let v = Vec::from(sk);
    assert(v@.len() == 32);
    let r = SecretKey::try_from(v.as_slice());
    assert(r is Ok && r->Ok_0.0 == sk.0);
}

/// the curve-tagged wrapper comes back as the SAME curve variant and key
pub fn c15_secret_key_enum_round_trip(k: &SecretKeyEnum)
    requires ske_scalar(*k).val() != 0,
{
    proof {
        lemma_reverse_reverse(scalar_le(ske_scalar(*k)));
        lemma_all_zero_reverse(scalar_le(ske_scalar(*k)));
    }
    let v = Vec::from(k);
    assert(v@.len() == 33);
    assert(v@.subrange(1, 33) =~= sk_be(ske_scalar(*k)));
    let r = SecretKeyEnum::try_from(v.as_slice());
    assert(r is Ok);
    assert(ske_curve(r->Ok_0) == ske_curve(*k) && ske_scalar(r->Ok_0) == ske_scalar(*k));
    let be = k.to_be_bytes();
    assert(be@.subrange(1, 33) =~= sk_be(ske_scalar(*k)));
    let rb = SecretKeyEnum::from_be_bytes(be.as_slice());
    assert(rb.is_some_spec() && ske_curve(rb.value()) == ske_curve(*k) && ske_scalar(rb.value()) == ske_scalar(*k));
    let le = k.to_le_bytes();
    assert(le@.subrange(1, 33) =~= scalar_le(ske_scalar(*k)));
    let rl = SecretKeyEnum::from_le_bytes(le.as_slice());
    assert(rl.is_some_spec() && ske_curve(rl.value()) == ske_curve(*k) && ske_scalar(rl.value()) == ske_scalar(*k));
}

pub fn c15_curve_tag_round_trip(t: Bls12381)
{
    let b = u8::from(t);
    let r = Bls12381::try_from(b);
    assert(r is Ok && r->Ok_0 == t);
}

/// public keys, accumulated public keys and proofs of possession: the byte form has the group's
/// fixed length, is a function of the value (deterministic), and the checked decoder returns the
/// SAME point
pub fn c15_point_bytes_round_trip(pk: &PublicKey, mpk: &MultiPublicKey, pop: &ProofOfPossession)
{
    let v = Vec::from(pk);
    assert(v@.len() == pk_len());
    let r = PublicKey::try_from(v.as_slice());
    assert(r is Ok && r->Ok_0.0 == pk.0);
    let v2 = Vec::from(mpk);
    assert(v2@.len() == pk_len());
    let r2 = MultiPublicKey::try_from(v2.as_slice());
    assert(r2 is Ok && r2->Ok_0.0 == mpk.0);
    let v3 = Vec::from(pop);
    assert(v3@.len() == sig_len());
    let r3 = ProofOfPossession::try_from(v3.as_slice());
    assert(r3 is Ok && r3->Ok_0.0 == pop.0);
}

/// commitment secrets and challenges: as for secret keys
pub fn c15_commitment_scalars_round_trip(x: &ProofCommitmentSecret, y: &ProofCommitmentChallenge)
    requires x.0.val() != 0, y.0.val() != 0,
{
    proof {
        lemma_reverse_reverse(scalar_le(x.0)); lemma_all_zero_reverse(scalar_le(x.0));
        lemma_reverse_reverse(scalar_le(y.0)); lemma_all_zero_reverse(scalar_le(y.0));
    }
    let be = x.to_be_bytes();
    let le = x.to_le_bytes();
    assert(be@ == le@.reverse() && be@.len() == 32);
    let b = ProofCommitmentSecret::from_be_bytes(&be);
    let l = ProofCommitmentSecret::from_le_bytes(&le);
    assert(b.is_some_spec() && b.value().0 == x.0);
    assert(l.is_some_spec() && l.value().0 == x.0);
    let v = Vec::from(x);
    let r = ProofCommitmentSecret::try_from(v.as_slice());
    assert(r is Ok && r->Ok_0.0 == x.0);

    let be = y.to_be_bytes();
    let le = y.to_le_bytes();
    assert(be@ == le@.reverse() && be@.len() == 32);
    let b = ProofCommitmentChallenge::from_be_bytes(&be);
    let l = ProofCommitmentChallenge::from_le_bytes(&le);
    assert(b.is_some_spec() && b.value().0 == y.0);
    assert(l.is_some_spec() && l.value().0 == y.0);
    let v = Vec::from(y);
    let r = ProofCommitmentChallenge::try_from(v.as_slice());
    assert(r is Ok && r->Ok_0.0 == y.0);
}

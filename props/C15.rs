// ---------------------------------------------------------------------------------------------
// C15 — every value survives every (hand-written) encoding unchanged.
// Scope: the byte codecs blsful implements itself.  serde-derived forms are L-SERDE (assumed).
// ---------------------------------------------------------------------------------------------
pub fn c15_secret_key_bytes_round_trip(sk: &SecretKey)
    requires sk.0.val() != 0,
{
    let be = sk.to_be_bytes();
    let le = sk.to_le_bytes();
    // fixed length, deterministic, big-endian is the reverse of little-endian
    assert(be@.len() == 32 && le@.len() == 32);
    assert(be@ == le@.reverse());
    proof {
        lemma_reverse_reverse(scalar_le(sk.0));
        lemma_all_zero_reverse(scalar_le(sk.0));
    }
    let b = SecretKey::from_be_bytes(&be);
    let l = SecretKey::from_le_bytes(&le);
    assert(b.is_some_spec() && b.value().0 == sk.0);
    assert(l.is_some_spec() && l.value().0 == sk.0);
    let v = Vec::from(sk);
    assert(v@.len() == 32);
    let r = SecretKey::try_from(v.as_slice());
    assert(r is Ok && r->Ok_0.0 == sk.0);
}

/// the curve-tagged wrapper comes back as the SAME curve variant and key
pub fn c15_secret_key_enum_round_trip(k: &SecretKeyEnum)
    requires ske_scalar(*k).val() != 0,
{
    proof {
        lemma_reverse_reverse(scalar_le(ske_scalar(*k)));
        lemma_all_zero_reverse(scalar_le(ske_scalar(*k)));
    }
    let v = Vec::from(k);
    assert(v@.len() == 33);
    assert(v@.subrange(1, 33) =~= sk_be(ske_scalar(*k)));
    let r = SecretKeyEnum::try_from(v.as_slice());
    assert(r is Ok);
    assert(ske_curve(r->Ok_0) == ske_curve(*k) && ske_scalar(r->Ok_0) == ske_scalar(*k));
    let be = k.to_be_bytes();
    assert(be@.subrange(1, 33) =~= sk_be(ske_scalar(*k)));
    let rb = SecretKeyEnum::from_be_bytes(be.as_slice());
    assert(rb.is_some_spec() && ske_curve(rb.value()) == ske_curve(*k) && ske_scalar(rb.value()) == ske_scalar(*k));
    let le = k.to_le_bytes();
    assert(le@.subrange(1, 33) =~= scalar_le(ske_scalar(*k)));
    let rl = SecretKeyEnum::from_le_bytes(le.as_slice());
    assert(rl.is_some_spec() && ske_curve(rl.value()) == ske_curve(*k) && ske_scalar(rl.value()) == ske_scalar(*k));
}

pub fn c15_curve_tag_round_trip(t: Bls12381)
{
    let b = u8::from(t);
    let r = Bls12381::try_from(b);
    assert(r is Ok && r->Ok_0 == t);
}

/// public keys, accumulated public keys and proofs of possession: the byte form has the group's
/// fixed length, is a function of the value (deterministic), and the checked decoder returns the
/// SAME point
pub fn c15_point_bytes_round_trip(pk: &PublicKey, mpk: &MultiPublicKey, pop: &ProofOfPossession)
{
    let v = Vec::from(pk);
    assert(v@.len() == pk_len());
    let r = PublicKey::try_from(v.as_slice());
    assert(r is Ok && r->Ok_0.0 == pk.0);
    let v2 = Vec::from(mpk);
    assert(v2@.len() == pk_len());
    let r2 = MultiPublicKey::try_from(v2.as_slice());
    assert(r2 is Ok && r2->Ok_0.0 == mpk.0);
    let v3 = Vec::from(pop);
    assert(v3@.len() == sig_len());
    let r3 = ProofOfPossession::try_from(v3.as_slice());
    assert(r3 is Ok && r3->Ok_0.0 == pop.0);
}

/// commitment secrets and challenges: as for secret keys
pub fn c15_commitment_scalars_round_trip(x: &ProofCommitmentSecret, y: &ProofCommitmentChallenge)
    requires x.0.val() != 0, y.0.val() != 0,
{
    proof {
        lemma_reverse_reverse(scalar_le(x.0)); lemma_all_zero_reverse(scalar_le(x.0));
        lemma_reverse_reverse(scalar_le(y.0)); lemma_all_zero_reverse(scalar_le(y.0));
    }
    let be = x.to_be_bytes();
    let le = x.to_le_bytes();
    assert(be@ == le@.reverse() && be@.len() == 32);
    let b = ProofCommitmentSecret::from_be_bytes(&be);
    let l = ProofCommitmentSecret::from_le_bytes(&le);
    assert(b.is_some_spec() && b.value().0 == x.0);
    assert(l.is_some_spec() && l.value().0 == x.0);
    let v = Vec::from(x);
    let r = ProofCommitmentSecret::try_from(v.as_slice());
    assert(r is Ok && r->Ok_0.0 == x.0);

    let be = y.to_be_bytes();
    let le = y.to_le_bytes();
    assert(be@ == le@.reverse() && be@.len() == 32);
    let b = ProofCommitmentChallenge::from_be_bytes(&be);
    let l = ProofCommitmentChallenge::from_le_bytes(&le);
    assert(b.is_some_spec() && b.value().0 == y.0);
    assert(l.is_some_spec() && l.value().0 == y.0);
    let v = Vec::from(y);
    let r = ProofCommitmentChallenge::try_from(v.as_slice());
    assert(r is Ok && r->Ok_0.0 == y.0);
}

/// the scheme label survives its one-byte form (the serialized tag is the pinned discriminant)
pub fn c15_scheme_tag_round_trip(s: SignatureSchemes)
{
    let t: u8 = match s { SignatureSchemes::Basic => 0u8, SignatureSchemes::MessageAugmentation => 1u8, SignatureSchemes::ProofOfPossession => 2u8 };
    assert(t == scheme_tag(s));
    let r = SignatureSchemes::from(t);
    assert(r == s);
}

/// the serde_bare byte form of every container type: the wrapper hands the WHOLE value to the encoder
/// and returns exactly what the decoder yields, so (L-SERDE: the encoding is lossless) every value
/// comes back unchanged — variant, points, scalars, payload bytes
pub fn c15_bare_forms_round_trip(x0: &Signature, x1: &AggregateSignature, x2: &MultiSignature, x3: &ProofOfKnowledge, x4: &ProofOfKnowledgeTimestamp, x5: &TimeCryptCiphertext, x6: &SignCryptCiphertext, x7: &SignCryptDecryptionKey, x8: &ElGamalCiphertext, x9: &ElGamalProof, x10: &ElGamalDecryptionShare, x11: &ElGamalDecryptionKey, x12: &SecretKeyShare, x13: &ProofCommitment)
{
    proof { axiom_commitment_bare_len(*x13); }
    let v0 = Vec::from(x0);
    let r0 = Signature::try_from(v0.as_slice());
    assert(r0 is Ok && r0->Ok_0 == *x0);
    let v1 = Vec::from(x1);
    let r1 = AggregateSignature::try_from(v1.as_slice());
    assert(r1 is Ok && r1->Ok_0 == *x1);
    let v2 = Vec::from(x2);
    let r2 = MultiSignature::try_from(v2.as_slice());
    assert(r2 is Ok && r2->Ok_0 == *x2);
    let v3 = Vec::from(x3);
    let r3 = ProofOfKnowledge::try_from(v3.as_slice());
    assert(r3 is Ok && r3->Ok_0 == *x3);
    let v4 = Vec::from(x4);
    let r4 = ProofOfKnowledgeTimestamp::try_from(v4.as_slice());
    assert(r4 is Ok && r4->Ok_0 == *x4);
    let v5 = Vec::from(x5);
    let r5 = TimeCryptCiphertext::try_from(v5.as_slice());
    assert(r5 is Ok && r5->Ok_0 == *x5);
    let v6 = Vec::from(x6);
    let r6 = SignCryptCiphertext::try_from(v6.as_slice());
    assert(r6 is Ok && r6->Ok_0 == *x6);
    let v7 = Vec::from(x7);
    let r7 = SignCryptDecryptionKey::try_from(v7.as_slice());
    assert(r7 is Ok && r7->Ok_0 == *x7);
    let v8 = Vec::from(x8);
    let r8 = ElGamalCiphertext::try_from(v8.as_slice());
    assert(r8 is Ok && r8->Ok_0 == *x8);
    let v9 = Vec::from(x9);
    let r9 = ElGamalProof::try_from(v9.as_slice());
    assert(r9 is Ok && r9->Ok_0 == *x9);
    let v10 = Vec::from(x10);
    let r10 = ElGamalDecryptionShare::try_from(v10.as_slice());
    assert(r10 is Ok && r10->Ok_0 == *x10);
    let v11 = Vec::from(x11);
    let r11 = ElGamalDecryptionKey::try_from(v11.as_slice());
    assert(r11 is Ok && r11->Ok_0 == *x11);
    let v12 = Vec::from(x12);
    let r12 = SecretKeyShare::try_from(v12.as_slice());
    assert(r12 is Ok && r12->Ok_0 == *x12);
    let v13 = Vec::from(x13);
    let r13 = ProofCommitment::try_from(v13.as_slice());
    assert(r13 is Ok && r13->Ok_0 == *x13);
}

/// shares: the wrapper encodes its inner share; a signature share keeps its scheme (the tag byte
/// written is the one the decoder maps back to the same variant)
pub fn c15_share_forms_round_trip(p: &PublicKeyShare, d: &SignDecryptionShare, s: &SignatureShare)
{
    let v = Vec::from(p);
    let r = PublicKeyShare::try_from(v.as_slice());
    assert(r is Ok && r->Ok_0.0 == p.0);
    let v = Vec::from(d);
    let r = SignDecryptionShare::try_from(v.as_slice());
    assert(r is Ok && r->Ok_0.0 == d.0);
    proof { axiom_sshare_bare(sshare_scheme(*s), sshare_raw(*s)); }
    let v = Vec::from(s);
    let r = SignatureShare::try_from(v.as_slice());
    assert(r is Ok && r->Ok_0 == *s);
}

// ---------------------------------------------------------------------------------------------
// C17 — no input makes a decoding, verification or decryption call abort.
// Panic-freedom is what Verus proves of every exec function it accepts (index bounds, unwrap,
// slice ranges, arithmetic overflow, explicit panics).  Each harness calls a consumer of foreign
// data with NO precondition: every argument is arbitrary.
// ---------------------------------------------------------------------------------------------
pub fn c17_pok_timestamp_verify_total(p: &ProofOfKnowledgeTimestamp, pk: PublicKey, msg: &[u8], timeout_ms: Option<u64>)
{
    let _ = p.verify(pk, msg, timeout_ms);
}
pub fn c17_secret_key_decoders_total(bytes: &[u8], arr: &[u8; 32])
{
    let _ = SecretKey::try_from(bytes);
    let _ = SecretKey::from_be_bytes(arr);
    let _ = SecretKey::from_le_bytes(arr);
    let _ = SecretKeyEnum::try_from(bytes);
    let _ = SecretKeyEnum::from_be_bytes(bytes);
    let _ = SecretKeyEnum::from_le_bytes(bytes);
}
/// the point-valued and commitment-scalar decoders return for every byte string of every length
pub fn c17_point_and_scalar_decoders_total(bytes: &[u8], arr: &[u8; 32])
{
    let _ = PublicKey::try_from(bytes);
    let _ = MultiPublicKey::try_from(bytes);
    let _ = ProofOfPossession::try_from(bytes);
    let _ = ProofCommitmentSecret::try_from(bytes);
    let _ = ProofCommitmentChallenge::try_from(bytes);
    let _ = ProofCommitmentSecret::from_be_bytes(arr);
    let _ = ProofCommitmentSecret::from_le_bytes(arr);
    let _ = ProofCommitmentChallenge::from_be_bytes(arr);
    let _ = ProofCommitmentChallenge::from_le_bytes(arr);
}
/// signcryption: validity check and both decryption paths return for every ciphertext (empty,
/// one-byte and arbitrary payloads, any length prefix)
pub fn c17_signcrypt_total(ct: &SignCryptCiphertext, sk: &SecretKey, dk: &SignCryptDecryptionKey)
{
    let _ = ct.is_valid();
    let _ = ct.decrypt(sk);
    let _ = dk.decrypt(ct);
}

/// share combination returns for every share set: empty, single, any length (index 0 is read only
/// after the combiner accepted at least two shares)
pub fn c17_share_combination_total(ss: &[SignatureShare], ps: &[PublicKeyShare], ks: &[SecretKeyShare], ds: &[SignDecryptionShare], es: &[ElGamalDecryptionShare], ct: &SignCryptCiphertext)
{
    let _ = Signature::from_shares(ss);
    let _ = PublicKey::from_shares(ps);
    let _ = SecretKey::combine(ks);
    let _ = SignCryptDecryptionKey::from_shares(ds);
    let _ = ElGamalDecryptionKey::from_shares(es);
    let _ = ct.decrypt_with_shares(ds);
}

// ---------------------------------------------------------------------------------------------
// C01 — every honestly produced signature verifies (all schemes; any message length).
// The harness calls the REAL extracted functions; msg is a slice of unbounded symbolic length.
// Hypothesis X-NONID (explicit `requires`): the hashed point is not the identity.
// ---------------------------------------------------------------------------------------------
pub fn c01_sign_then_verify(sk: &SecretKey, scheme: SignatureSchemes, msg: &[u8])
    requires
        sk.0.val() != 0,
        hp(scheme_msg(scheme, pk_mul(pk_of(1), sk.0), msg@), scheme_dst(scheme)).dl() != 0, // X-NONID
{
    let r1 = sk.sign(scheme, msg);
    let r2 = sk.sign(scheme, msg);
    // signing succeeds and is deterministic
    assert(r1 is Ok);
    assert(r1 == r2);
    let pk = sk.public_key();
    match r1 {
        Ok(sig) => {
            proof {
                let x = sk.0.val();
                let pkv = pk_mul(pk_of(1), sk.0);
                let m = scheme_msg(scheme, pkv, msg@);
                let d = scheme_dst(scheme);
                let h = hp(m, d).dl();
                lemma_honest_nonzero(h, x);
                assert(pk.0 == pkv);
                assert(pkv.dl() == x);
                assert(sig_point(sig) == sig_mul(hp(m, d), sk.0));
                assert(sig_scheme(sig) == scheme);
                lemma_cv_eq_iff(pk.0, sig_point(sig), m, d);
            }
            let v = sig.verify(&pk, msg);
            assert(v is Ok);
            // the other route to the public key gives the same key
            let pk2 = PublicKey::from(sk);
            assert(pk2.0 == pk.0);
        }
        Err(_) => {}
    }
}

/// ... and it still holds after the key has been carried through the library's byte encodings:
/// the re-imported key is the same scalar, hence signs identically (determinism above)
pub fn c01_key_through_byte_encodings(sk: &SecretKey)
    requires sk.0.val() != 0,
{
    proof { lemma_reverse_reverse(scalar_le(sk.0)); lemma_all_zero_reverse(scalar_le(sk.0)); }
    let be = sk.to_be_bytes();
    let k1 = SecretKey::from_be_bytes(&be);
    assert(k1.is_some_spec() && k1.value().0 == sk.0);
    let le = sk.to_le_bytes();
    let k2 = SecretKey::from_le_bytes(&le);
    assert(k2.is_some_spec() && k2.value().0 == sk.0);
    let v = Vec::from(sk);
    let k3 = SecretKey::try_from(v.as_slice());
    assert(k3 is Ok && k3->Ok_0.0 == sk.0);
    // the public key's byte form is its compressed encoding (injective, A-ENC)
    let pk = sk.public_key();
    let pkb = Vec::from(&pk);
    assert(pkb@ == pk_enc(pk.0));
}

/// ... and through the curve-tagged wrapper: a key carried through ANY byte form of SecretKeyEnum
/// (big-endian, little-endian, Vec) comes back as the same key of the same curve, so what it signs
/// verifies under the original public key (c01_sign_then_verify)
pub fn c01_key_through_enum_encodings(k: &SecretKeyEnum)
    requires ske_scalar(*k).val() != 0,
{
    proof { lemma_reverse_reverse(scalar_le(ske_scalar(*k))); lemma_all_zero_reverse(scalar_le(ske_scalar(*k))); }
    let be = k.to_be_bytes();
    assert(be@.subrange(1, 33) =~= sk_be(ske_scalar(*k)));
    let r1 = SecretKeyEnum::from_be_bytes(be.as_slice());
    assert(r1.is_some_spec() && ske_curve(r1.value()) == ske_curve(*k) && ske_scalar(r1.value()) == ske_scalar(*k));
    let le = k.to_le_bytes();
    assert(le@.subrange(1, 33) =~= scalar_le(ske_scalar(*k)));
    let r2 = SecretKeyEnum::from_le_bytes(le.as_slice());
    assert(r2.is_some_spec() && ske_curve(r2.value()) == ske_curve(*k) && ske_scalar(r2.value()) == ske_scalar(*k));
    let v = Vec::from(k);
    assert(v@.subrange(1, 33) =~= sk_be(ske_scalar(*k)));
    let r3 = SecretKeyEnum::try_from(v.as_slice());
    assert(r3 is Ok && ske_curve(r3->Ok_0) == ske_curve(*k) && ske_scalar(r3->Ok_0) == ske_scalar(*k));
}

/// ... and the public key carried through its byte encoding comes back as the same key (for EVERY key: the
/// decoder may not refuse a class of valid encodings), so the verification of c01_sign_then_verify goes through
/// with the re-imported key
pub fn c01_public_key_through_bytes(pk: &PublicKey)
{
    let v = Vec::from(pk);
    assert(v@.len() == pk_len());
    let r = PublicKey::try_from(v.as_slice());
    assert(r is Ok && r->Ok_0.0 == pk.0);
}

// ---------------------------------------------------------------------------------------------
// lib_shares — recombination in the exponent is linear (PROVED from the combiner's structure:
// result = sum_i basis(ids, i) * y_i with a basis that depends on the identifiers only).
// ---------------------------------------------------------------------------------------------
/// sum_i (p * y_i) * b_i  ==  p * sum_i y_i * b_i
pub proof fn lemma_lag_sum_scale(ids: Seq<u8>, ys: Seq<int>, zs: Seq<int>, p: int, n: int)
    requires 0 <= n <= ys.len(), n <= zs.len(), inr(p),
        forall|i: int| 0 <= i < n ==> #[trigger] zs[i] == fmul(p, ys[i]),
    ensures lag_sum(ids, zs, n) == fmul(p, lag_sum(ids, ys, n))
    decreases n
{
    if n <= 0 {
        lemma_mul_zero(p);
    } else {
        lemma_lag_sum_scale(ids, ys, zs, p, n - 1);
        let b = lag_basis(ids, n - 1);
        let s = lag_sum(ids, ys, n - 1);
        let y = ys[n - 1];
        assert(zs[n - 1] == fmul(p, y));
        lemma_mul_assoc(p, y, b);
        lemma_distrib(p, s, fmul(y, b));
    }
}
pub proof fn lemma_lag_sum_range(ids: Seq<u8>, ys: Seq<int>, n: int)
    ensures inr(lag_sum(ids, ys, n))
    decreases n
{
    axiom_r_gt_1();
    if n > 0 { lemma_range_add(lag_sum(ids, ys, n - 1), fmul(ys[n - 1], lag_basis(ids, n - 1))); }
}
/// lag_sum depends on the first n entries only
pub proof fn lemma_lag_sum_ext(ids: Seq<u8>, ys: Seq<int>, zs: Seq<int>, n: int)
    requires 0 <= n <= ys.len(), n <= zs.len(), forall|i: int| 0 <= i < n ==> #[trigger] ys[i] == zs[i],
    ensures lag_sum(ids, ys, n) == lag_sum(ids, zs, n)
    decreases n
{
    if n > 0 { lemma_lag_sum_ext(ids, ys, zs, n - 1); }
}

/// signature shares g_i = (id_i, enc(v_i * P)) over scalar shares f_i = (id_i, v_i): if the scalar
/// shares recombine to x, the signature shares recombine to x * P
pub open spec fn sig_shares_of(f: Seq<SkShare>, g: Seq<SigShare>, p: Sig) -> bool {
    f.len() == g.len() && forall|i: int| 0 <= i < f.len() ==> share_scalar((#[trigger] f[i]).val()) is Some
        && g[i].id() == f[i].id() && g[i].val() == sig_enc(sig_mul(p, share_scalar(f[i].val())->Some_0))
}
pub proof fn lemma_combine_linear_sig(f: Seq<SkShare>, g: Seq<SigShare>, p: Sig)
    requires sig_shares_of(f, g, p), combined(f) is Some,
    ensures combined(g) == Some(sig_mul(p, combined(f)->Some_0))
{
    let n = f.len() as int;
    assert(comb_ids(g) =~= comb_ids(f));
    assert forall|i: int| 0 <= i < n implies (#[trigger] g[i]).sdl() == Some(fmul(p.dl(), comb_ys(f)[i])) by {
        let v = share_scalar(f[i].val())->Some_0;
        assert(f[i].sdl() == Some(v.val()));
        assert(<Sig as ShareTarget>::dec_of(sig_enc(sig_mul(p, v))) == Some(sig_mul(p, v)));
        assert(sig_mul(p, v).dl() == fmul(p.dl(), v.val()));
    }
    assert(comb_accepts(g));
    assert forall|i: int| 0 <= i < n implies #[trigger] comb_ys(g)[i] == fmul(p.dl(), comb_ys(f)[i]) by { assert(g[i].sdl() is Some); }
    lemma_lag_sum_scale(comb_ids(f), comb_ys(f), comb_ys(g), p.dl(), n);
    lemma_lag_sum_range(comb_ids(f), comb_ys(f), n);
    let l = lag_sum(comb_ids(f), comb_ys(f), n);
    assert(scalar_of(l).val() == l);
}
pub open spec fn pk_shares_of(f: Seq<SkShare>, g: Seq<PkShare>, p: Pk) -> bool {
    f.len() == g.len() && forall|i: int| 0 <= i < f.len() ==> share_scalar((#[trigger] f[i]).val()) is Some
        && g[i].id() == f[i].id() && g[i].val() == pk_enc(pk_mul(p, share_scalar(f[i].val())->Some_0))
}
pub proof fn lemma_combine_linear_pk(f: Seq<SkShare>, g: Seq<PkShare>, p: Pk)
    requires pk_shares_of(f, g, p), combined(f) is Some,
    ensures combined(g) == Some(pk_mul(p, combined(f)->Some_0))
{
    let n = f.len() as int;
    assert(comb_ids(g) =~= comb_ids(f));
    assert forall|i: int| 0 <= i < n implies (#[trigger] g[i]).sdl() == Some(fmul(p.dl(), comb_ys(f)[i])) by {
        let v = share_scalar(f[i].val())->Some_0;
        assert(f[i].sdl() == Some(v.val()));
        assert(<Pk as ShareTarget>::dec_of(pk_enc(pk_mul(p, v))) == Some(pk_mul(p, v)));
        assert(pk_mul(p, v).dl() == fmul(p.dl(), v.val()));
    }
    assert(comb_accepts(g));
    assert forall|i: int| 0 <= i < n implies #[trigger] comb_ys(g)[i] == fmul(p.dl(), comb_ys(f)[i]) by { assert(g[i].sdl() is Some); }
    lemma_lag_sum_scale(comb_ids(f), comb_ys(f), comb_ys(g), p.dl(), n);
    lemma_lag_sum_range(comb_ids(f), comb_ys(f), n);
    let l = lag_sum(comb_ids(f), comb_ys(f), n);
    assert(scalar_of(l).val() == l);
}

// ---------------------------------------------------------------------------------------------
// C08 — threshold shares: what blsful contributes on top of vsss-rs.
// A partial signature is the share's scalar times H(m) under the scheme's tag and carries the
// share identifier; it verifies against the participant's own public-key share and against no
// other participant's.  (Splitting, Lagrange recombination and the error cases of the combiner
// are vsss-rs: assumed, L-VSSS; exercised on the real crate by the witness family.)
// ---------------------------------------------------------------------------------------------
pub fn c08_partial_signature_verifies_against_own_key_share(sks: &SecretKeyShare, scheme: SignatureSchemes, msg: &[u8])
    requires
        share_scalar(sks.0.val()) is Some, share_scalar(sks.0.val())->Some_0.val() != 0,
        scheme != SignatureSchemes::MessageAugmentation,
        hp(msg@, scheme_dst(scheme)).dl() != 0,                                                  // X-NONID
{
    let ps = sks.sign(scheme, msg);
    let pks = sks.public_key();
    match (ps, pks) {
        (Ok(ps), Ok(pks)) => {
            // the identifier is carried into both
            assert(sshare_raw(ps).id() == sks.0.id() && pks.0.id() == sks.0.id());
            proof {
                let s = share_scalar(sks.0.val())->Some_0;
                let h = hp(msg@, scheme_dst(scheme)).dl();
                let pkp = pk_mul(pk_of(1), s);
                let sgp = sig_mul(hp(msg@, scheme_dst(scheme)), s);
                broadcast use lemma_mul_comm, lemma_mul_one;
                lemma_honest_nonzero(h, s.val());
                assert(pkp.dl() == s.val());
                lemma_cv_eq_iff(pkp, sgp, msg@, scheme_dst(scheme));
            }
            let v = pks.verify(&ps, msg);
            assert(v is Ok);
        }
        _ => {}
    }
}

/// ... and against no other participant's key share (a different scalar)
pub fn c08_partial_signature_rejected_for_other_key_share(p1: &PublicKeyShare, p2: &PublicKeyShare, ps: &SignatureShare, msg: &[u8])
    requires
        sshare_scheme(*ps) != SignatureSchemes::MessageAugmentation,
        <Pk as ShareTarget>::dec_of(p1.0.val()) is Some, <Pk as ShareTarget>::dec_of(p2.0.val()) is Some,
        <Pk as ShareTarget>::dec_of(p1.0.val())->Some_0 != <Pk as ShareTarget>::dec_of(p2.0.val())->Some_0,
        hp(msg@, scheme_dst(sshare_scheme(*ps))).dl() != 0,                                      // X-NONID
{
    let v1 = p1.verify(ps, msg);
    let v2 = p2.verify(ps, msg);
    proof {
        if v1 is Ok && v2 is Ok {
            let a = <Pk as ShareTarget>::dec_of(p1.0.val())->Some_0;
            let b = <Pk as ShareTarget>::dec_of(p2.0.val())->Some_0;
            let s = <Sig as ShareTarget>::dec_of(sshare_raw(*ps).val())->Some_0;
            let d = scheme_dst(sshare_scheme(*ps));
            lemma_cv_eq_iff(a, s, msg@, d);
            lemma_cv_eq_iff(b, s, msg@, d);
            lemma_mul_comm(hp(msg@, d).dl(), a.dl()); lemma_mul_comm(hp(msg@, d).dl(), b.dl());
            lemma_mul_cancel(a.dl(), b.dl(), hp(msg@, d).dl());
        }
    }
    assert(!(v1 is Ok && v2 is Ok));
}

/// message-augmentation partial signatures are refused; zero shares cannot sign
pub fn c08_refusals(sks: &SecretKeyShare, msg: &[u8])
{
    let r = sks.sign(SignatureSchemes::MessageAugmentation, msg);
    assert(r is Err);
}

// ---------------------------------------------------------------------------------------------
// C08 — threshold shares: what blsful contributes on top of vsss-rs.
// A partial signature is the share's scalar times H(m) under the scheme's tag and carries the
// share identifier; it verifies against the participant's own public-key share and against no
// other participant's.  Recombination: every wrapper forwards ALL shares with their identifiers to
// the vsss-rs combiner and tags the result with the common scheme; recombination in the exponent
// is linear (proved, lib_shares.rs), so partial signatures / public-key shares of scalar shares
// that recombine to x recombine to x*H(m) / x*G — the whole-key values.  That any t of n shares
// produced by split recombine to the key is vsss-rs' Lagrange interpolation (assumed, L-LAGRANGE).
// ---------------------------------------------------------------------------------------------
pub fn c08_partial_signature_verifies_against_own_key_share(sks: &SecretKeyShare, scheme: SignatureSchemes, msg: &[u8])
    requires
        share_scalar(sks.0.val()) is Some, share_scalar(sks.0.val())->Some_0.val() != 0,
        scheme != SignatureSchemes::MessageAugmentation,
        hp(msg@, scheme_dst(scheme)).dl() != 0,                                                  // X-NONID
{
    let ps = sks.sign(scheme, msg);
    let pks = sks.public_key();
    match (ps, pks) {
        (Ok(ps), Ok(pks)) => {
            // the identifier is carried into both
            assert(sshare_raw(ps).id() == sks.0.id() && pks.0.id() == sks.0.id());
            proof {
                let s = share_scalar(sks.0.val())->Some_0;
                let h = hp(msg@, scheme_dst(scheme)).dl();
                let pkp = pk_mul(pk_of(1), s);
                let sgp = sig_mul(hp(msg@, scheme_dst(scheme)), s);
                broadcast use lemma_mul_comm, lemma_mul_one;
                lemma_honest_nonzero(h, s.val());
                assert(pkp.dl() == s.val());
                lemma_cv_eq_iff(pkp, sgp, msg@, scheme_dst(scheme));
            }
            let v = pks.verify(&ps, msg);
            assert(v is Ok);
        }
        _ => {}
    }
}

/// ... and against no other participant's key share (a different scalar)
pub fn c08_partial_signature_rejected_for_other_key_share(p1: &PublicKeyShare, p2: &PublicKeyShare, ps: &SignatureShare, msg: &[u8])
    requires
        sshare_scheme(*ps) != SignatureSchemes::MessageAugmentation,
        <Pk as ShareTarget>::dec_of(p1.0.val()) is Some, <Pk as ShareTarget>::dec_of(p2.0.val()) is Some,
        <Pk as ShareTarget>::dec_of(p1.0.val())->Some_0 != <Pk as ShareTarget>::dec_of(p2.0.val())->Some_0,
        hp(msg@, scheme_dst(sshare_scheme(*ps))).dl() != 0,                                      // X-NONID
{
    let v1 = p1.verify(ps, msg);
    let v2 = p2.verify(ps, msg);
    proof {
        if v1 is Ok && v2 is Ok {
            let a = <Pk as ShareTarget>::dec_of(p1.0.val())->Some_0;
            let b = <Pk as ShareTarget>::dec_of(p2.0.val())->Some_0;
            let s = <Sig as ShareTarget>::dec_of(sshare_raw(*ps).val())->Some_0;
            let d = scheme_dst(sshare_scheme(*ps));
            lemma_cv_eq_iff(a, s, msg@, d);
            lemma_cv_eq_iff(b, s, msg@, d);
            lemma_mul_comm(hp(msg@, d).dl(), a.dl()); lemma_mul_comm(hp(msg@, d).dl(), b.dl());
            lemma_mul_cancel(a.dl(), b.dl(), hp(msg@, d).dl());
        }
    }
    assert(!(v1 is Ok && v2 is Ok));
}

/// message-augmentation partial signatures are refused; zero shares cannot sign
pub fn c08_refusals(sks: &SecretKeyShare, msg: &[u8])
{
    let r = sks.sign(SignatureSchemes::MessageAugmentation, msg);
    assert(r is Err);
}

/// what `SecretKeyShare::sign` returns for the scalar share f (its postcondition, as a predicate)
pub open spec fn signed_by(ps: SignatureShare, f: SkShare, scheme: SignatureSchemes, m: Seq<u8>) -> bool {
    sshare_scheme(ps) == scheme && share_scalar(f.val()) is Some && sshare_raw(ps).id() == f.id()
        && sshare_raw(ps).val() == sig_enc(sig_mul(hp(m, scheme_dst(scheme)), share_scalar(f.val())->Some_0))
}
/// partial signatures of scalar shares that recombine to the key recombine to EXACTLY the signature
/// the whole key produces under the same scheme (same group element, hence the same bytes: A-ENC)
pub fn c08_partial_signatures_recombine_to_whole_key_signature(sk: &SecretKey, shares: &[SignatureShare], Ghost(f): Ghost<Seq<SkShare>>, scheme: SignatureSchemes, msg: &[u8])
    requires
        sk.0.val() != 0, scheme != SignatureSchemes::MessageAugmentation,
        f.len() == shares@.len(),
        forall|i: int| 0 <= i < f.len() ==> signed_by(#[trigger] shares@[i], f[i], scheme, msg@),
        combined(f) == Some(sk.0),               // e.g. any t or more distinct shares of a split (L-LAGRANGE)
{
    let s = Signature::from_shares(shares);
    let whole = sk.sign(scheme, msg);
    proof {
        let p = hp(msg@, scheme_dst(scheme));
        let g = sshares_raw(shares@);
        assert(comb_accepts(f));
        assert(sig_shares_of(f, g, p));
        lemma_combine_linear_sig(f, g, p);
        assert(sshares_one_scheme(shares@));
    }
    assert(s is Ok && whole is Ok);
    assert(sig_scheme(s->Ok_0) == scheme && sig_point(s->Ok_0) == sig_point(whole->Ok_0));
    assert(s->Ok_0 == whole->Ok_0);
}

/// public-key shares of scalar shares that recombine to the key recombine to its public key
pub fn c08_public_key_shares_recombine(sk: &SecretKey, shares: &[PublicKeyShare], Ghost(f): Ghost<Seq<SkShare>>)
    requires
        f.len() == shares@.len(),
        forall|i: int| 0 <= i < f.len() ==> share_scalar((#[trigger] f[i]).val()) is Some && shares@[i].0.id() == f[i].id()
            && shares@[i].0.val() == pk_enc(pk_mul(pk_of(1), share_scalar(f[i].val())->Some_0)),     // what SecretKeyShare::public_key returns
        combined(f) == Some(sk.0),
{
    let r = PublicKey::from_shares(shares);
    let pk = sk.public_key();
    proof {
        assert(pk_shares_of(f, pkshares_raw(shares@), pk_of(1)));
        lemma_combine_linear_pk(f, pkshares_raw(shares@), pk_of(1));
    }
    assert(r is Ok && r->Ok_0.0 == pk.0);
}

/// split then combine: all n shares, and (L-LAGRANGE) any selection of at least t distinct ones,
/// give back the key; parameters outside 2 <= t <= n <= 255 are refused
pub fn c08_split_then_combine(sk: &SecretKey, t: usize, n: usize, rng: ChaCha20Rng, Ghost(sub): Ghost<Seq<SecretKeyShare>>, Ghost(pos): Ghost<Seq<int>>)
{
    let r = sk.split_with_rng(t, n, rng);
    assert((r is Ok) == (2 <= t <= n <= 255));
    match r {
        Ok(shares) => {
            assert(shares@.len() == n);
            proof {
                let all = skshares_raw(shares@);
                let id = Seq::new(all.len(), |i: int| i);
                assert(picks(all, all, id));
                axiom_interpolation(all, sk.0, t as int, all, id);
                if picks(skshares_raw(sub), all, pos) && sub.len() >= t {
                    axiom_interpolation(all, sk.0, t as int, skshares_raw(sub), pos);
                    assert(combined(skshares_raw(sub)) == Some(sk.0));
                }
            }
            let c = SecretKey::combine(shares.as_slice());
            assert(c is Ok && c->Ok_0.0 == sk.0);
        }
        Err(_) => {}
    }
}

/// empty, single, duplicated-identifier, zero-identifier and mixed-scheme share sets are errors
pub fn c08_bad_share_sets_are_errors(ss: &[SignatureShare], ps: &[PublicKeyShare], ks: &[SecretKeyShare])
{
    let a = Signature::from_shares(ss);
    let b = PublicKey::from_shares(ps);
    let c = SecretKey::combine(ks);
    assert(ss@.len() < 2 ==> a is Err);
    assert(ps@.len() < 2 ==> b is Err);
    assert(ks@.len() < 2 ==> c is Err);
    // mixed schemes
    assert((exists|i: int| 0 <= i < ss@.len() && sshare_scheme(#[trigger] ss@[i]) != sshare_scheme(ss@[0])) ==> a is Err);
    // a zero identifier or a repeated identifier anywhere
    assert(a is Ok ==> ids_ok(comb_ids(sshares_raw(ss@))));
    assert(b is Ok ==> ids_ok(comb_ids(pkshares_raw(ps@))));
    assert(c is Ok ==> ids_ok(comb_ids(skshares_raw(ks@))));
    assert forall|i: int| 0 <= i < ss@.len() && a is Ok implies sshare_raw(#[trigger] ss@[i]).id() != 0 by {
        assert(comb_ids(sshares_raw(ss@))[i] == sshare_raw(ss@[i]).id());
    }
    assert forall|i: int, j: int| 0 <= i < j < ss@.len() && a is Ok implies sshare_raw(#[trigger] ss@[i]).id() != sshare_raw(#[trigger] ss@[j]).id() by {
        assert(comb_ids(sshares_raw(ss@))[i] == sshare_raw(ss@[i]).id());
        assert(comb_ids(sshares_raw(ss@))[j] == sshare_raw(ss@[j]).id());
    }
    // use-time validation (C16): every payload decoded with the checked decoder
    assert forall|i: int| 0 <= i < ss@.len() && a is Ok implies <Sig as ShareTarget>::dec_of(sshare_raw(#[trigger] ss@[i]).val()) is Some by {
        assert(sshares_raw(ss@)[i].sdl() is Some);
    }
}

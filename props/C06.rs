// ---------------------------------------------------------------------------------------------
// C06 — aggregate verification: complete, exact, distinct messages enforced in Basic.
// Lists have ANY length (induction); the reference decision is CoreAggregateVerify written in
// discrete-log form from the IETF draft.
// ---------------------------------------------------------------------------------------------

// (the reference decision `ietf_aggregate_verify` and its lemmas are in lib_sums.rs, shared with C03)

/// the library's decision equals the reference on EVERY (aggregate, list) — in particular a
/// Basic list with a repeated message is rejected even when the sum matches, while the
/// augmentation and proof-of-possession schemes do not look at repetitions
pub fn c06_decision_equals_reference(agg: &AggregateSignature, data: &[(PublicKey, &[u8])])
    requires agg_point(*agg).dl() != 0,
{
    let v = agg.verify(data);
    proof {
        let l = data_pairs(data@);
        let sig = agg_point(*agg);
        lemma_agg_eq_iff(l, sig, DST_BASIC());
        lemma_agg_eq_iff(l, sig, DST_POP_SIG());
        lemma_aug_eq_iff(l, sig, DST_AUG());
        lemma_distinct_prefix_iff(l, l.len() as int);
    }
    assert(v is Ok <==> ietf_aggregate_verify(agg_scheme(*agg), data_pairs(data@), agg_point(*agg)));
}

/// honest aggregate: sigs[i] is what key x_i produces for m_i under scheme s (C01's postcondition)
pub open spec fn honest_sigs(s: SignatureSchemes, sigs: Seq<Signature>, l: Seq<(Pk, &[u8])>) -> bool {
    &&& sigs.len() == l.len()
    &&& forall|i: int| 0 <= i < sigs.len() ==> sig_scheme(#[trigger] sigs[i]) == s
    &&& forall|i: int| 0 <= i < sigs.len() ==> sig_point(#[trigger] sigs[i]).dl()
            == fmul(hp(scheme_msg(s, l[i].0, l[i].1@), scheme_dst(s)).dl(), l[i].0.dl())
}

pub proof fn lemma_honest_sum(s: SignatureSchemes, sigs: Seq<Signature>, l: Seq<(Pk, &[u8])>, n: int)
    requires honest_sigs(s, sigs, l), 0 <= n <= l.len(),
    ensures
        s != SignatureSchemes::MessageAugmentation ==> plain_sum(sigs, n) == sum_hx(l.take(n), scheme_dst(s)),
        s == SignatureSchemes::MessageAugmentation ==> plain_sum(sigs, n) == sum_hx_aug(l.take(n), scheme_dst(s)),
    decreases n
{
    if n > 0 {
        lemma_honest_sum(s, sigs, l, n - 1);
        assert(l.take(n).drop_last() =~= l.take(n - 1));
        assert(l.take(n).last() == l[n - 1]);
    }
}

/// n >= 2 honest signatures of one scheme aggregate, and the aggregate verifies against exactly
/// the list that produced it
pub fn c06_honest_aggregate_verifies(scheme: SignatureSchemes, sigs: &[Signature], data: &[(PublicKey, &[u8])])
    requires
        sigs@.len() >= 2,
        honest_sigs(scheme, sigs@, data_pairs(data@)),
        forall|i: int| 0 <= i < data@.len() ==> (#[trigger] data@[i]).0.0.dl() != 0,
        scheme == SignatureSchemes::Basic ==> msgs_distinct(data_pairs(data@)),
        plain_sum(sigs@, sigs@.len() as int) != 0,     // the aggregate is not the identity (X-LIN)
{
    let r = AggregateSignature::from_signatures(sigs);
    assert(r is Ok) by { assert(all_same_scheme(sigs@)); }
    match r {
        Ok(agg) => {
            proof {
                let l = data_pairs(data@);
                lemma_accumulated_is_plain_sum(sigs@, sigs@.len() as int);
                lemma_honest_sum(scheme, sigs@, l, l.len() as int);
                assert(l.take(l.len() as int) =~= l);
                lemma_agg_eq_iff(l, agg_point(agg), DST_BASIC());
                lemma_agg_eq_iff(l, agg_point(agg), DST_POP_SIG());
                lemma_aug_eq_iff(l, agg_point(agg), DST_AUG());
                lemma_distinct_prefix_iff(l, l.len() as int);
                assert(agg_guards(l, agg_point(agg)));
            }
            let v = agg.verify(data);
            assert(v is Ok);
        }
        Err(_) => {}
    }
}

/// fewer than two signatures, or mixed schemes, are refused
pub fn c06_refusals(sigs: &[Signature])
    requires sigs@.len() < 2 || !all_same_scheme(sigs@),
{
    let r = AggregateSignature::from_signatures(sigs);
    assert(r is Err);
}

/// exactness: the accepted aggregate point is unique, so altering a key or a message, dropping or
/// adding a pair, or swapping two messages between different signers changes the verdict exactly
/// when it changes the reference sum (no accidental relation, X-LIN, is the stated hypothesis)
pub proof fn c06_perturbation_rejected(s: SignatureSchemes, l: Seq<(Pk, &[u8])>, l2: Seq<(Pk, &[u8])>, sig: Sig)
    requires
        ietf_aggregate_verify(s, l, sig),
        s != SignatureSchemes::MessageAugmentation ==> sum_hx(l2, scheme_dst(s)) != sum_hx(l, scheme_dst(s)),      // X-LIN
        s == SignatureSchemes::MessageAugmentation ==> sum_hx_aug(l2, scheme_dst(s)) != sum_hx_aug(l, scheme_dst(s)),
    ensures !ietf_aggregate_verify(s, l2, sig)
{}

/// order independence: swapping two neighbouring pairs leaves the sum (hence the verdict) unchanged;
/// every permutation is a product of such swaps
pub proof fn c06_adjacent_swap<B: AsRefBytes>(l: Seq<(Pk, B)>, i: int, d: Seq<u8>)
    requires 0 <= i, i + 1 < l.len(),
    ensures sum_hx(l.update(i, l[i + 1]).update(i + 1, l[i]), d) == sum_hx(l, d)
    decreases l.len()
{
    broadcast use ring;
    let l2 = l.update(i, l[i + 1]).update(i + 1, l[i]);
    if i + 2 == l.len() {
        let p = l.drop_last().drop_last();
        assert(l2.drop_last().drop_last() =~= p);
        assert(l2.last() == l[i]);
        assert(l2.drop_last().last() == l[i + 1]);
        assert(l.drop_last().last() == l[i]);
        lemma_sum_ranges(p, d);
        let a = sum_hx(p, d);
        let t1 = fmul(hp(l[i].1.bytes(), d).dl(), l[i].0.dl());
        let t2 = fmul(hp(l[i + 1].1.bytes(), d).dl(), l[i + 1].0.dl());
        reveal_with_fuel(sum_hx, 3);
        assert(sum_hx(l, d) == fadd(fadd(a, t1), t2));
        assert(sum_hx(l2, d) == fadd(fadd(a, t2), t1));
        lemma_add_assoc(a, t1, t2); lemma_add_comm(t1, t2); lemma_add_assoc(a, t2, t1);
    } else {
        c06_adjacent_swap(l.drop_last(), i, d);
        assert(l2.drop_last() =~= l.drop_last().update(i, l[i + 1]).update(i + 1, l[i]));
        assert(l2.last() == l.last());
    }
}

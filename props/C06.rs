pub fn c06_dummy(pks: Vec<(Pk, &[u8])>, sig: Sig, dst: &[u8]) {
    let r = BlsSignatureCore__core_aggregate_verify(pks, sig, dst);
}

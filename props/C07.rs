// ---------------------------------------------------------------------------------------------
// C07 — multi-signatures verify against exactly the set of signers.
// ---------------------------------------------------------------------------------------------
pub open spec fn keys_sum(k: Seq<PublicKey>, n: int) -> int
    decreases n
{
    if n <= 0 { 0 } else { fadd(keys_sum(k, n - 1), k[n - 1].0.dl()) }
}
pub proof fn lemma_keys_sum_is_pk_sum(k: Seq<PublicKey>, n: int)
    requires 0 <= n <= k.len(),
    ensures keys_sum(k, n) == pk_sum(key_points(k).take(n)), inr(keys_sum(k, n)),
    decreases n
{
    axiom_r_gt_1();
    if n > 0 {
        lemma_keys_sum_is_pk_sum(k, n - 1);
        assert(key_points(k).take(n).drop_last() =~= key_points(k).take(n - 1));
    }
}
/// n signers, one message m hashed to h:  sum_i (h * x_i) == h * sum_i x_i
pub proof fn lemma_same_message_sum(sigs: Seq<Signature>, keys: Seq<PublicKey>, h: int, n: int)
    requires
        0 <= n <= sigs.len(), sigs.len() == keys.len(), inr(h),
        forall|i: int| 0 <= i < sigs.len() ==> sig_point(#[trigger] sigs[i]).dl() == fmul(h, keys[i].0.dl()),
    ensures plain_sum(sigs, n) == fmul(h, keys_sum(keys, n))
    decreases n
{
    if n > 0 {
        lemma_same_message_sum(sigs, keys, h, n - 1);
        lemma_distrib(h, keys_sum(keys, n - 1), keys[n - 1].0.dl());
    } else {
        lemma_mul_zero(h);
    }
}

/// n >= 2 signatures of one scheme (Pop or Basic) over the same message accumulate into a
/// multi-signature that EQUALS the plain group sum and verifies against the accumulated key of
/// exactly those signers
pub fn c07_accumulate_and_verify(scheme: SignatureSchemes, sigs: &[Signature], keys: &[PublicKey], msg: &[u8])
    requires
        scheme != SignatureSchemes::MessageAugmentation,
        sigs@.len() >= 2, sigs@.len() == keys@.len(),
        forall|i: int| 0 <= i < sigs@.len() ==> sig_scheme(#[trigger] sigs@[i]) == scheme,
        forall|i: int| 0 <= i < sigs@.len() ==> sig_point(#[trigger] sigs@[i]).dl()
            == fmul(hp(msg@, scheme_dst(scheme)).dl(), keys@[i].0.dl()),          // honest signatures (C01)
        hp(msg@, scheme_dst(scheme)).dl() != 0,                                        // X-NONID
        keys_sum(keys@, keys@.len() as int) != 0,                                      // accumulated key is valid
{
    let r = MultiSignature::from_signatures(sigs);
    assert(r is Ok) by { assert(all_same_scheme(sigs@)); assert(no_aug(sigs@)); }
    let mpk = MultiPublicKey::from_public_keys(keys);
    match r {
        Ok(ms) => {
            proof {
                let h = hp(msg@, scheme_dst(scheme)).dl();
                lemma_accumulated_is_plain_sum(sigs@, sigs@.len() as int);
                // equals the plain group sum of the parts
                assert(msig_point(ms).dl() == plain_sum(sigs@, sigs@.len() as int));
                lemma_same_message_sum(sigs@, keys@, h, sigs@.len() as int);
                lemma_keys_sum_is_pk_sum(keys@, keys@.len() as int);
                assert(key_points(keys@).take(keys@.len() as int) =~= key_points(keys@));
                lemma_honest_nonzero(h, mpk.0.dl());
                lemma_cv_eq_iff(mpk.0, msig_point(ms), msg@, scheme_dst(scheme));
            }
            let v = ms.verify(mpk, msg);
            assert(v is Ok);
        }
        Err(_) => {}
    }
}

/// against any accumulated key with a signer missing, added or replaced (a different sum), and
/// for any other message (X-INJ), verification fails — pure algebra given H(m) != O
pub fn c07_wrong_key_set_or_message_rejected(ms: &MultiSignature, mpk: MultiPublicKey, other: MultiPublicKey, msg: &[u8], msg2: &[u8])
    requires
        msig_scheme(*ms) != SignatureSchemes::MessageAugmentation,
        hp(msg@, scheme_dst(msig_scheme(*ms))).dl() != 0,                              // X-NONID
        other.0 != mpk.0,
        hp(msg2@, scheme_dst(msig_scheme(*ms))) != hp(msg@, scheme_dst(msig_scheme(*ms))),  // X-INJ
{
    let v1 = ms.verify(mpk, msg);
    let v2 = ms.verify(other, msg);
    let v3 = ms.verify(mpk, msg2);
    proof {
        broadcast use lemma_mul_comm;
        let d = scheme_dst(msig_scheme(*ms));
        lemma_cv_eq_iff(mpk.0, msig_point(*ms), msg@, d);
        lemma_cv_eq_iff(other.0, msig_point(*ms), msg@, d);
        lemma_cv_eq_iff(mpk.0, msig_point(*ms), msg2@, d);
        if v1 is Ok && v2 is Ok { lemma_mul_cancel(other.0.dl(), mpk.0.dl(), hp(msg@, d).dl()); }
        if v1 is Ok && v3 is Ok { lemma_mul_cancel(hp(msg2@, d).dl(), hp(msg@, d).dl(), mpk.0.dl()); }
    }
    assert(v1 is Ok ==> v2 is Err && v3 is Err);
}

/// accumulation refuses message-augmentation signatures, mixed schemes and fewer than two inputs
pub fn c07_refusals(sigs: &[Signature])
    requires sigs@.len() < 2 || !all_same_scheme(sigs@) || !no_aug(sigs@),
{
    let r = MultiSignature::from_signatures(sigs);
    assert(r is Err);
}

/// the trait-level entry point: multi_sig_verify accumulates the keys itself
pub fn c07_multi_sig_verify(pks: Vec<Pk>, sig: Sig, msg: &[u8])
    requires hp(msg@, DST_POP_SIG()).dl() != 0,
{
    let ghost s = pk_sum(pks@);
    let v = BlsSignaturePop__multi_sig_verify(pks, sig, msg);
    proof {
        lemma_pk_sum_range(pks@);
        lemma_cv_eq_iff(pk_of(s), sig, msg@, DST_POP_SIG());
        if s != 0 && fmul(hp(msg@, DST_POP_SIG()).dl(), s) == sig.dl() { lemma_honest_nonzero(hp(msg@, DST_POP_SIG()).dl(), s); }
    }
    assert(v is Ok <==> (s != 0 && fmul(hp(msg@, DST_POP_SIG()).dl(), s) == sig.dl()));
}

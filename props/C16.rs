// ---------------------------------------------------------------------------------------------
// C16 — decoding never yields a zero key or a mis-sized value (hand-written decoders).
// ---------------------------------------------------------------------------------------------
pub fn c16_secret_key_import(bytes: &[u8], arr: &[u8; 32])
{
    let r = SecretKey::try_from(bytes);
    assert(r is Ok ==> bytes@.len() == 32 && r->Ok_0.0.val() != 0);
    let b = SecretKey::from_be_bytes(arr);
    assert(b.is_some_spec() ==> b.value().0.val() != 0);
    let l = SecretKey::from_le_bytes(arr);
    assert(l.is_some_spec() ==> l.value().0.val() != 0);
    // the all-zero array is refused by every importer
    proof { lemma_all_zero_reverse(arr@); }
    assert(all_zero(arr@) ==> !b.is_some_spec() && !l.is_some_spec());
}
pub fn c16_secret_key_enum_import(bytes: &[u8])
    requires bytes@.len() > 0,
{
    let r = SecretKeyEnum::try_from(bytes);
    assert(r is Ok ==> bytes@.len() == 33 && ske_scalar(r->Ok_0).val() != 0);
}

// ---------------------------------------------------------------------------------------------
// C16 — decoding never yields a zero key or a mis-sized value (hand-written decoders).
// ---------------------------------------------------------------------------------------------
pub fn c16_secret_key_import(bytes: &[u8], arr: &[u8; 32])
{
    let r = SecretKey::try_from(bytes);
    assert(r is Ok ==> bytes@.len() == 32 && r->Ok_0.0.val() != 0);
    let b = SecretKey::from_be_bytes(arr);
    assert(b.is_some_spec() ==> b.value().0.val() != 0);
    let l = SecretKey::from_le_bytes(arr);
    assert(l.is_some_spec() ==> l.value().0.val() != 0);
    // the all-zero array is refused by every importer
    proof { lemma_all_zero_reverse(arr@); }
    assert(all_zero(arr@) ==> !b.is_some_spec() && !l.is_some_spec());
}
pub fn c16_secret_key_enum_import(bytes: &[u8])
    requires bytes@.len() > 0,
{
    let r = SecretKeyEnum::try_from(bytes);
    assert(r is Ok ==> bytes@.len() == 33 && ske_scalar(r->Ok_0).val() != 0);
}

/// point-valued types with an exact byte length: a value is returned only for input of exactly the
/// group's encoding length that IS the canonical encoding of the returned subgroup point (so an
/// off-curve x, a point outside the subgroup, wrong flag bits, truncated or extended input are all
/// refused: none of them is `enc(p)` for a group element p — A-ENC, checked decoder)
pub fn c16_point_import(bytes: &[u8])
{
    let r = PublicKey::try_from(bytes);
    assert(r is Ok ==> bytes@.len() == pk_len() && pk_valid_enc(bytes@) && pk_enc(r->Ok_0.0) == bytes@);
    let r2 = MultiPublicKey::try_from(bytes);
    assert(r2 is Ok ==> bytes@.len() == pk_len() && pk_valid_enc(bytes@) && pk_enc(r2->Ok_0.0) == bytes@);
    let r3 = ProofOfPossession::try_from(bytes);
    assert(r3 is Ok ==> bytes@.len() == sig_len() && sig_valid_enc(bytes@) && sig_enc(r3->Ok_0.0) == bytes@);
}

/// commitment secrets and challenges imported from bytes are never zero and have exactly 32 bytes
pub fn c16_commitment_scalar_import(bytes: &[u8], arr: &[u8; 32])
{
    let r = ProofCommitmentSecret::try_from(bytes);
    assert(r is Ok ==> bytes@.len() == 32 && r->Ok_0.0.val() != 0);
    let r2 = ProofCommitmentChallenge::try_from(bytes);
    assert(r2 is Ok ==> bytes@.len() == 32 && r2->Ok_0.0.val() != 0);
    let b = ProofCommitmentSecret::from_be_bytes(arr);
    let l = ProofCommitmentSecret::from_le_bytes(arr);
    let b2 = ProofCommitmentChallenge::from_be_bytes(arr);
    let l2 = ProofCommitmentChallenge::from_le_bytes(arr);
    assert(b.is_some_spec() ==> b.value().0.val() != 0);
    assert(l.is_some_spec() ==> l.value().0.val() != 0);
    assert(b2.is_some_spec() ==> b2.value().0.val() != 0);
    assert(l2.is_some_spec() ==> l2.value().0.val() != 0);
    proof { lemma_all_zero_reverse(arr@); }
    assert(all_zero(arr@) ==> !b.is_some_spec() && !l.is_some_spec() && !b2.is_some_spec() && !l2.is_some_spec());
}

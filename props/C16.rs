// ---------------------------------------------------------------------------------------------
// C16 — decoding never yields a zero key or a mis-sized value (hand-written decoders).
// ---------------------------------------------------------------------------------------------
pub fn c16_secret_key_import(bytes: &[u8], arr: &[u8; 32])
{
    let r = SecretKey::try_from(bytes);
    assert(r is Ok ==> bytes@.len() == 32 && r->Ok_0.0.val() != 0);
    let b = SecretKey::from_be_bytes(arr);
    assert(b.is_some_spec() ==> b.value().0.val() != 0);
    let l = SecretKey::from_le_bytes(arr);
    assert(l.is_some_spec() ==> l.value().0.val() != 0);
    // the all-zero array is refused by every importer
    proof { lemma_all_zero_reverse(arr@); }
    assert(all_zero(arr@) ==> !b.is_some_spec() && !l.is_some_spec());
}
pub fn c16_secret_key_enum_import(bytes: &[u8])
    requires bytes@.len() > 0,
{
    let r = SecretKeyEnum::try_from(bytes);
    assert(r is Ok ==> bytes@.len() == 33 && ske_scalar(r->Ok_0).val() != 0);
}

/// point-valued types with an exact byte length: a value is returned only for input of exactly the
/// group's encoding length that IS the canonical encoding of the returned subgroup point (so an
/// off-curve x, a point outside the subgroup, wrong flag bits, truncated or extended input are all
/// refused: none of them is `enc(p)` for a group element p — A-ENC, checked decoder)
pub fn c16_point_import(bytes: &[u8])
{
    let r = PublicKey::try_from(bytes);
    assert(r is Ok ==> bytes@.len() == pk_len() && pk_valid_enc(bytes@) && pk_enc(r->Ok_0.0) == bytes@);
    let r2 = MultiPublicKey::try_from(bytes);
    assert(r2 is Ok ==> bytes@.len() == pk_len() && pk_valid_enc(bytes@) && pk_enc(r2->Ok_0.0) == bytes@);
    let r3 = ProofOfPossession::try_from(bytes);
    assert(r3 is Ok ==> bytes@.len() == sig_len() && sig_valid_enc(bytes@) && sig_enc(r3->Ok_0.0) == bytes@);
}

/// commitment secrets and challenges imported from bytes are never zero and have exactly 32 bytes
pub fn c16_commitment_scalar_import(bytes: &[u8], arr: &[u8; 32])
{
    let r = ProofCommitmentSecret::try_from(bytes);
    assert(r is Ok ==> bytes@.len() == 32 && r->Ok_0.0.val() != 0);
    let r2 = ProofCommitmentChallenge::try_from(bytes);
    assert(r2 is Ok ==> bytes@.len() == 32 && r2->Ok_0.0.val() != 0);
    let b = ProofCommitmentSecret::from_be_bytes(arr);
    let l = ProofCommitmentSecret::from_le_bytes(arr);
    let b2 = ProofCommitmentChallenge::from_be_bytes(arr);
    let l2 = ProofCommitmentChallenge::from_le_bytes(arr);
    assert(b.is_some_spec() ==> b.value().0.val() != 0);
    assert(l.is_some_spec() ==> l.value().0.val() != 0);
    assert(b2.is_some_spec() ==> b2.value().0.val() != 0);
    assert(l2.is_some_spec() ==> l2.value().0.val() != 0);
    proof { lemma_all_zero_reverse(arr@); }
    assert(all_zero(arr@) ==> !b.is_some_spec() && !l.is_some_spec() && !b2.is_some_spec() && !l2.is_some_spec());
}

/// share containers hold unparsed point bytes and are validated WHEN USED: recombining shares into
/// a signature, public key or decryption key succeeds only if every payload passed the checked
/// decoder (is the encoding of a subgroup point)
pub fn c16_shares_are_validated_when_combined(ss: &[SignatureShare], ps: &[PublicKeyShare], ds: &[SignDecryptionShare], es: &[ElGamalDecryptionShare])
{
    let a = Signature::from_shares(ss);
    let b = PublicKey::from_shares(ps);
    let c = SignCryptDecryptionKey::from_shares(ds);
    let d = ElGamalDecryptionKey::from_shares(es);
    assert forall|i: int| 0 <= i < ss@.len() && a is Ok implies <Sig as ShareTarget>::dec_of(sshare_raw(#[trigger] ss@[i]).val()) is Some by {
        assert(sshares_raw(ss@)[i].sdl() is Some);
    }
    assert forall|i: int| 0 <= i < ps@.len() && b is Ok implies <Pk as ShareTarget>::dec_of((#[trigger] ps@[i]).0.val()) is Some by {
        assert(pkshares_raw(ps@)[i].sdl() is Some);
    }
    assert forall|i: int| 0 <= i < ds@.len() && c is Ok implies <Pk as ShareTarget>::dec_of((#[trigger] ds@[i]).0.val()) is Some by {
        assert(sdshares_raw(ds@)[i].sdl() is Some);
    }
    assert forall|i: int| 0 <= i < es@.len() && d is Ok implies <Pk as ShareTarget>::dec_of((#[trigger] es@[i]).0.val()) is Some by {
        assert(egshares_raw(es@)[i].sdl() is Some);
    }
}

/// proof commitments have an exact byte length: every other length is refused
pub fn c16_commitment_import(bytes: &[u8])
{
    let r = ProofCommitment::try_from(bytes);
    assert(r is Ok ==> bytes@.len() == sig_len() + 1);
}

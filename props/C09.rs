// ---------------------------------------------------------------------------------------------
// C09 — a proof of possession verifies only for the key that made it.
// ---------------------------------------------------------------------------------------------
pub fn c09_own_key_verifies_and_is_deterministic(sk: &SecretKey)
    requires
        sk.0.val() != 0,
        hp(pk_enc(pk_mul(pk_of(1), sk.0)), DST_POP_PROOF()).dl() != 0, // X-NONID
{
    let p1 = sk.proof_of_possession();
    let p2 = sk.proof_of_possession();
    assert(p1 is Ok && p2 is Ok);
    assert(p1->Ok_0.0 == p2->Ok_0.0);
    let pk = sk.public_key();
    match p1 {
        Ok(pop) => {
            proof {
                let x = sk.0.val();
                let m = pk_enc(pk.0);
                let h = hp(m, DST_POP_PROOF()).dl();
                lemma_honest_nonzero(h, x);
                lemma_cv_eq_iff(pk.0, pop.0, m, DST_POP_PROOF());
            }
            let v = pop.verify(pk);
            assert(v is Ok);
        }
        Err(_) => {}
    }
}

/// whatever proof point is presented, acceptance means it is THE point h(enc pk) * X — so any
/// change to the proof fails, and a proof made by key x is rejected for every other key pk'
/// unless x * H(enc pk) == x' * H(enc pk')   (X-LIN, stated as the hypothesis)
pub fn c09_rejected_for_other_key(pop: &ProofOfPossession, sk: &SecretKey, other: PublicKey)
    requires
        sk.0.val() != 0,
        pop.0 == sig_mul(hp(pk_enc(pk_mul(pk_of(1), sk.0)), DST_POP_PROOF()), sk.0),  // the honest proof of sk
        other.0 != pk_mul(pk_of(1), sk.0),
        // X-LIN: no accidental relation between the two hashed keys
        fmul(hp(pk_enc(other.0), DST_POP_PROOF()).dl(), other.0.dl()) != fmul(hp(pk_enc(pk_mul(pk_of(1), sk.0)), DST_POP_PROOF()).dl(), sk.0.val()),
{
    let v = pop.verify(other);
    proof {
        lemma_cv_eq_iff(other.0, pop.0, pk_enc(other.0), DST_POP_PROOF());
    }
    assert(v is Err);
}

pub fn c09_any_changed_proof_fails(pop: &ProofOfPossession, pop2: &ProofOfPossession, pk: PublicKey)
    requires pop2.0 != pop.0,
{
    let v1 = pop.verify(pk);
    let v2 = pop2.verify(pk);
    proof {
        lemma_cv_eq_iff(pk.0, pop.0, pk_enc(pk.0), DST_POP_PROOF());
        lemma_cv_eq_iff(pk.0, pop2.0, pk_enc(pk.0), DST_POP_PROOF());
    }
    assert(!(v1 is Ok && v2 is Ok));
}

/// a proof that arrives as bytes: the honest encoding decodes to the proof itself, and whatever the decoder
/// accepts is the canonical encoding of a group element — so an altered byte string is either refused or is
/// another proof, which c09_any_changed_proof_fails rejects (a point outside the prime-order group, which the
/// pairing equation cannot see, is never handed to `verify`)
pub fn c09_proof_through_bytes(pop: &ProofOfPossession, other: &[u8])
{
    let v = Vec::from(pop);
    assert(v@.len() == sig_len());
    let r = ProofOfPossession::try_from(v.as_slice());
    assert(r is Ok && r->Ok_0.0 == pop.0);
    let q = ProofOfPossession::try_from(other);
    assert(q is Ok ==> sig_valid_enc(other@) && q->Ok_0.0 == sig_dec(other@) && sig_enc(q->Ok_0.0) == other@);
    assert(q is Ok && other@ != v@ ==> q->Ok_0.0 != pop.0);
}

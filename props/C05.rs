// ---------------------------------------------------------------------------------------------
// C05 — schemes and purposes are domain-separated (generic unit).
// Every wrapper takes the tag from the scheme carried by the VALUE (signature variant / scheme
// field); under X-DSEP (distinct tags hash the same message to different points) a signature of
// one scheme never verifies when relabelled.
// ---------------------------------------------------------------------------------------------
pub open spec fn relabel(s: Signature, to: SignatureSchemes) -> Signature { mk_sig(to, sig_point(s)) }

/// a signature honestly produced under scheme `s1`, presented under another scheme label `s2`
pub fn c05_relabelled_signature_is_rejected(sk: &SecretKey, s1: SignatureSchemes, s2: SignatureSchemes, msg: &[u8], relabelled: &Signature)
    requires
        sk.0.val() != 0, s1 != s2,
        hp(scheme_msg(s1, pk_mul(pk_of(1), sk.0), msg@), scheme_dst(s1)).dl() != 0,          // X-NONID
        // X-DSEP: the two schemes hash (their form of) the message to different points
        hp(scheme_msg(s2, pk_mul(pk_of(1), sk.0), msg@), scheme_dst(s2)) != hp(scheme_msg(s1, pk_mul(pk_of(1), sk.0), msg@), scheme_dst(s1)),
        sk_sign_spec(sk.0, s1, msg@) is Some,
        *relabelled == relabel(sk_sign_spec(sk.0, s1, msg@)->Some_0, s2),
{
    let pk = sk.public_key();
    let v = relabelled.verify(&pk, msg);
    proof {
        broadcast use lemma_mul_comm, lemma_mul_one;
        let x = sk.0.val();
        let m1 = scheme_msg(s1, pk.0, msg@);
        let m2 = scheme_msg(s2, pk.0, msg@);
        lemma_cv_eq_iff(pk.0, sig_point(*relabelled), m2, scheme_dst(s2));
        assert(fmul(1, x) == fmul(x, 1));
        if v is Ok { lemma_mul_cancel(hp(m2, scheme_dst(s2)).dl(), hp(m1, scheme_dst(s1)).dl(), x); }
    }
    assert(v is Err);
}

/// a Pop-scheme signature over the public-key bytes is not a proof of possession, and a proof of
/// possession is not a signature over the public-key bytes: they differ exactly in the tag
pub fn c05_pop_and_signature_are_separated(sk: &SecretKey)
    requires
        sk.0.val() != 0,
        hp(pk_enc(pk_mul(pk_of(1), sk.0)), DST_POP_SIG()) != hp(pk_enc(pk_mul(pk_of(1), sk.0)), DST_POP_PROOF()),   // X-DSEP
{
    let pk = sk.public_key();
    let pkb = Vec::from(&pk);
    let sig = sk.sign(SignatureSchemes::ProofOfPossession, pkb.as_slice());
    let pop = sk.proof_of_possession();
    proof {
        broadcast use lemma_mul_comm, lemma_mul_one;
        assert(fmul(1, sk.0.val()) == fmul(sk.0.val(), 1));
    }
    assert(sig is Ok && pop is Ok);
    match (sig, pop) {
        (Ok(sig), Ok(pop)) => {
            // the signature presented as a proof of possession
            let as_pop = ProofOfPossession(*sig.as_raw_value());
            let v1 = as_pop.verify(pk);
            // the proof of possession presented as a signature
            let as_sig = Signature::ProofOfPossession(pop.0);
            let v2 = as_sig.verify(&pk, pkb.as_slice());
            proof {
                broadcast use lemma_mul_comm, lemma_mul_one;
                assert(pk.0.dl() == sk.0.val());
                let e = pk_enc(pk.0);
                assert(sig_point(sig).dl() == fmul(hp(e, DST_POP_SIG()).dl(), sk.0.val()));
                assert(pop.0.dl() == fmul(hp(e, DST_POP_PROOF()).dl(), sk.0.val()));
                lemma_cv_eq_iff(pk.0, sig_point(sig), e, DST_POP_PROOF());
                lemma_cv_eq_iff(pk.0, pop.0, e, DST_POP_SIG());
                if v1 is Ok { lemma_mul_cancel(hp(e, DST_POP_PROOF()).dl(), hp(e, DST_POP_SIG()).dl(), sk.0.val()); }
                if v2 is Ok { lemma_mul_cancel(hp(e, DST_POP_SIG()).dl(), hp(e, DST_POP_PROOF()).dl(), sk.0.val()); }
            }
            assert(v1 is Err && v2 is Err);
        }
        _ => {}
    }
}

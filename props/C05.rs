// ---------------------------------------------------------------------------------------------
// C05 — schemes and purposes are domain-separated (generic unit).
// Every wrapper takes the tag from the scheme carried by the VALUE (signature variant / scheme
// field); under X-DSEP (distinct tags hash the same message to different points) a signature of
// one scheme never verifies when relabelled.
// ---------------------------------------------------------------------------------------------
pub open spec fn relabel(s: Signature, to: SignatureSchemes) -> Signature { mk_sig(to, sig_point(s)) }

/// a signature honestly produced under scheme `s1`, presented under another scheme label `s2`
pub fn c05_relabelled_signature_is_rejected(sk: &SecretKey, s1: SignatureSchemes, s2: SignatureSchemes, msg: &[u8], relabelled: &Signature)
    requires
        sk.0.val() != 0, s1 != s2,
        hp(scheme_msg(s1, pk_mul(pk_of(1), sk.0), msg@), scheme_dst(s1)).dl() != 0,          // X-NONID
        // X-DSEP: the two schemes hash (their form of) the message to different points
        hp(scheme_msg(s2, pk_mul(pk_of(1), sk.0), msg@), scheme_dst(s2)) != hp(scheme_msg(s1, pk_mul(pk_of(1), sk.0), msg@), scheme_dst(s1)),
        sk_sign_spec(sk.0, s1, msg@) is Some,
        *relabelled == relabel(sk_sign_spec(sk.0, s1, msg@)->Some_0, s2),
{
    let pk = sk.public_key();
    let v = relabelled.verify(&pk, msg);
    proof {
        broadcast use lemma_mul_comm, lemma_mul_one;
        let x = sk.0.val();
        let m1 = scheme_msg(s1, pk.0, msg@);
        let m2 = scheme_msg(s2, pk.0, msg@);
        lemma_cv_eq_iff(pk.0, sig_point(*relabelled), m2, scheme_dst(s2));
        assert(fmul(1, x) == fmul(x, 1));
        if v is Ok { lemma_mul_cancel(hp(m2, scheme_dst(s2)).dl(), hp(m1, scheme_dst(s1)).dl(), x); }
    }
    assert(v is Err);
}

/// a Pop-scheme signature over the public-key bytes is not a proof of possession, and a proof of
/// possession is not a signature over the public-key bytes: they differ exactly in the tag
pub fn c05_pop_and_signature_are_separated(sk: &SecretKey)
    requires
        sk.0.val() != 0,
        hp(pk_enc(pk_mul(pk_of(1), sk.0)), DST_POP_SIG()) != hp(pk_enc(pk_mul(pk_of(1), sk.0)), DST_POP_PROOF()),   // X-DSEP
{
    let pk = sk.public_key();
    let pkb = Vec::from(&pk);
    let sig = sk.sign(SignatureSchemes::ProofOfPossession, pkb.as_slice());
    let pop = sk.proof_of_possession();
    proof {
        broadcast use lemma_mul_comm, lemma_mul_one;
        assert(fmul(1, sk.0.val()) == fmul(sk.0.val(), 1));
    }
    assert(sig is Ok && pop is Ok);
    match (sig, pop) {
        (Ok(sig), Ok(pop)) => {
            // the signature presented as a proof of possession
            let as_pop = ProofOfPossession(*sig.as_raw_value());
            let v1 = as_pop.verify(pk);
            // the proof of possession presented as a signature
            let as_sig = Signature::ProofOfPossession(pop.0);
            let v2 = as_sig.verify(&pk, pkb.as_slice());
            proof {
                broadcast use lemma_mul_comm, lemma_mul_one;
                assert(pk.0.dl() == sk.0.val());
                let e = pk_enc(pk.0);
                assert(sig_point(sig).dl() == fmul(hp(e, DST_POP_SIG()).dl(), sk.0.val()));
                assert(pop.0.dl() == fmul(hp(e, DST_POP_PROOF()).dl(), sk.0.val()));
                lemma_cv_eq_iff(pk.0, sig_point(sig), e, DST_POP_PROOF());
                lemma_cv_eq_iff(pk.0, pop.0, e, DST_POP_SIG());
                if v1 is Ok { lemma_mul_cancel(hp(e, DST_POP_PROOF()).dl(), hp(e, DST_POP_SIG()).dl(), sk.0.val()); }
                if v2 is Ok { lemma_mul_cancel(hp(e, DST_POP_SIG()).dl(), hp(e, DST_POP_PROOF()).dl(), sk.0.val()); }
            }
            assert(v1 is Err && v2 is Err);
        }
        _ => {}
    }
}

/// algebra: v + (u + h1*y)*X == 0 and v + (u + h2*y)*X == 0, X != 0, y != 0  ==>  h1 == h2
pub proof fn lemma_pok_two_tags(vv: int, u: int, h1: int, h2: int, y: int, x: int)
    requires inr(vv), inr(u), inr(h1), inr(h2), inr(y), inr(x), x != 0, y != 0,
        fadd(vv, fmul(fadd(u, fmul(h1, y)), x)) == 0,
        fadd(vv, fmul(fadd(u, fmul(h2, y)), x)) == 0,
    ensures h1 == h2
{
    let a1 = fadd(u, fmul(h1, y));
    let a2 = fadd(u, fmul(h2, y));
    lemma_range_add(u, fmul(h1, y)); lemma_range_add(u, fmul(h2, y));
    lemma_range_mul(a1, x); lemma_range_mul(a2, x); lemma_range_mul(h1, y); lemma_range_mul(h2, y);
    lemma_add_comm(vv, fmul(a1, x)); lemma_add_comm(vv, fmul(a2, x));
    lemma_add_cancel(fmul(a1, x), fmul(a2, x), vv);
    lemma_mul_cancel(a1, a2, x);
    lemma_add_comm(u, fmul(h1, y)); lemma_add_comm(u, fmul(h2, y));
    lemma_add_cancel(fmul(h1, y), fmul(h2, y), u);
    lemma_mul_cancel(h1, h2, y);
}

/// a proof of knowledge bound to one scheme is rejected under another scheme label (X-DSEP)
pub fn c05_pok_relabelled_is_rejected(p1: &ProofOfKnowledge, p2: &ProofOfKnowledge, pk: PublicKey, msg: &[u8], y: ProofCommitmentChallenge)
    requires
        pok_u(*p1) == pok_u(*p2), pok_v(*p1) == pok_v(*p2), pok_scheme(*p1) != pok_scheme(*p2),
        hp(msg@, scheme_dst(pok_scheme(*p1))) != hp(msg@, scheme_dst(pok_scheme(*p2))),        // X-DSEP
{
    let v1 = p1.verify(pk, msg, y);
    let v2 = p2.verify(pk, msg, y);
    proof {
        let d1 = scheme_dst(pok_scheme(*p1));
        let d2 = scheme_dst(pok_scheme(*p2));
        lemma_pok_eq_iff2(pok_u(*p1), pok_v(*p1), pk.0, y.0, msg@, d1);
        lemma_pok_eq_iff2(pok_u(*p2), pok_v(*p2), pk.0, y.0, msg@, d2);
        if v1 is Ok && v2 is Ok {
            lemma_pok_two_tags(pok_v(*p1).dl(), pok_u(*p1).dl(), hp(msg@, d1).dl(), hp(msg@, d2).dl(), y.0.val(), pk.0.dl());
        }
    }
    assert(!(v1 is Ok && v2 is Ok));
}

/// aggregates are bound to their scheme as well: whatever an aggregate of scheme S accepts satisfies
/// the aggregate equation under S's own signature tag (and S's message form) — never under the
/// proof-of-possession tag or another scheme's tag; so (X-DSEP) a sum of proofs of possession is not an
/// aggregate signature, and an aggregate relabelled to another scheme is rejected
pub fn c05_aggregate_is_bound_to_its_scheme_tag(a: &AggregateSignature, data: &[(PublicKey, &[u8])])
{
    let v = a.verify(data);
    assert(v is Ok ==> agg_sum_eq(agg_scheme(*a), data_pairs(data@), agg_point(*a)));
}

/// and so are multi-signatures: whatever an accumulated signature of scheme S accepts satisfies the
/// verification equation under S's own tag and message form — a Basic multi-signature presented
/// under the MessageAugmentation or ProofOfPossession label is checked against that label's tag
pub fn c05_multi_signature_is_bound_to_its_scheme_tag(ms: &MultiSignature, pk: MultiPublicKey, msg: &[u8])
{
    let v = ms.verify(pk, msg);
    assert(v is Ok ==> cv_eq(pk.0, msig_point(*ms), scheme_msg(msig_scheme(*ms), pk.0, msg@), scheme_dst(msig_scheme(*ms))));
}

/// consequence under X-DSEP: the same point cannot be accepted under two labels for one key and message
pub fn c05_relabelled_multi_signature_is_rejected(a: &MultiSignature, b: &MultiSignature, pk: MultiPublicKey, msg: &[u8])
    requires
        msig_point(*a) == msig_point(*b), msig_scheme(*a) != msig_scheme(*b),
        // X-DSEP: the two schemes hash (their form of) the message to different points
        hp(scheme_msg(msig_scheme(*a), pk.0, msg@), scheme_dst(msig_scheme(*a))) != hp(scheme_msg(msig_scheme(*b), pk.0, msg@), scheme_dst(msig_scheme(*b))),
{
    let va = a.verify(pk, msg);
    let vb = b.verify(pk, msg);
    proof {
        let ma = scheme_msg(msig_scheme(*a), pk.0, msg@);
        let mb = scheme_msg(msig_scheme(*b), pk.0, msg@);
        lemma_cv_eq_iff(pk.0, msig_point(*a), ma, scheme_dst(msig_scheme(*a)));
        lemma_cv_eq_iff(pk.0, msig_point(*b), mb, scheme_dst(msig_scheme(*b)));
        if va is Ok && vb is Ok {
            lemma_mul_cancel(hp(ma, scheme_dst(msig_scheme(*a))).dl(), hp(mb, scheme_dst(msig_scheme(*b))).dl(), pk.0.dl());
        }
    }
    assert(!(va is Ok && vb is Ok));
}

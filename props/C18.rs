// ---------------------------------------------------------------------------------------------
// C18 — own-protocol wire formats are stable and independently implementable (generic unit).
// The spec functions of contracts/*.vspec (sc_frame, sc_mask, sc_w_point, tc_v, tc_w, tc_r,
// compute_y_spec, eg_log, eg_challenge, curve_tag, ...) are the PINNED reference constructions:
// they were written from the pinned release and do not move with the code.  Each harness calls the
// real producer / consumer and states that it implements exactly that construction.
// ---------------------------------------------------------------------------------------------
/// signcryption: U = r*G, V = (LEB128(len) || M || 0-padding to 32) XOR SHAKE128(enc(r*pk)), W = r*H(enc(U) || V, tag of the scheme)
pub fn c18_signcryption_format(pk: &PublicKey, scheme: SignatureSchemes, msg: &[u8], ct2: &SignCryptCiphertext)
{
    let ct = pk.sign_crypt(scheme, msg);
    assert(exists|g: ChaCha20Rng| #[trigger] ct_sealed_from(g, pk.0, msg@, ct));
    let v = ct2.is_valid();
    assert(v@ == sc_valid(ct2.u, ct2.v@, ct2.w, scheme_dst(ct2.scheme)));
}
/// time-lock: r = H2S(le(alpha) || SHA-256(M)), U = r*G, V = le(alpha) XOR SHA-256(enc_gt(e(H(id), r*pk))), W = frame(M) XOR SHAKE128(le(alpha))
pub fn c18_time_lock_format(pk: &PublicKey, scheme: SignatureSchemes, msg: &[u8], id: &[u8])
    requires pk.0.dl() != 0,
{
    let ct = pk.encrypt_time_lock(scheme, msg, id);
    assert(ct is Ok && exists|g: ChaCha20Rng| #[trigger] tcc_sealed_from(g, pk.0, msg@, scheme_msg(scheme, pk.0, id@), ct->Ok_0));
}
/// proof of knowledge: the timestamp challenge is H2S(enc(u) || le64(t), SALT_POK)
pub fn c18_pok_challenge_format(p: &ProofOfKnowledgeTimestamp, pk: PublicKey, msg: &[u8])
{
    let v = p.verify(pk, msg, None);
    assert(v is Ok ==> pok_eq(pok_u(p.proof), pok_v(p.proof), pk.0, compute_y_spec(pok_u(p.proof), p.timestamp), msg@, scheme_dst(pok_scheme(p.proof))));
}
/// ElGamal proof: the transcript labels, their order and the 64-byte wide reduction
pub fn c18_elgamal_transcript_format(p: &ElGamalProof, pk: PublicKey)
{
    let v = p.verify(pk);
    assert(v is Ok ==> p.challenge == eg_challenge(pk.0, eg_gen(), p.ciphertext.c1, p.ciphertext.c2,
        eg_r1v(p.ciphertext.c1, p.blinder_proof, p.challenge), eg_r2v(pk.0, eg_gen(), p.ciphertext.c2, p.message_proof, p.blinder_proof, p.challenge)));
}
/// seed-derived keys and challenges use the KeyGen salt; the curve tag bytes are 1 and 2
pub fn c18_keygen_and_tags(seed: &[u8])
{
    let sk = SecretKey::from_hash(seed);
    assert(sk.0 == hs(seed@, KEYGEN_SALT_spec()));
    let c = ProofCommitmentChallenge::from_hash(seed);
    assert(c.0 == hs(seed@, KEYGEN_SALT_spec()));
    let t1 = u8::from(Bls12381::G1);
    let t2 = u8::from(Bls12381::G2);
    assert(t1 == 1 && t2 == 2);
}

// C05 (implementor unit): the signature / proof-of-possession tags equal the IETF strings (same
// obligations as C03) and ALL tags and salts of the library are pairwise distinct (generated
// proof fn `c05_all_tags_pairwise_distinct`, appended below on every run).
// ---------------------------------------------------------------------------------------------
// C03 (implementor unit) — the ciphersuite identifiers and the KeyGen salt are byte-for-byte the
// strings of draft-irtf-cfrg-bls-signature (section 4.2 ciphersuites: minimal-signature-size =
// BLS12381G1, minimal-pubkey-size = BLS12381G2; section 2.3 KeyGen).  The strings below were
// typed from the draft, not copied from the code.
// ---------------------------------------------------------------------------------------------
pub open spec fn ietf_Bls12381G1Impl__BlsSignatureBasic__DST() -> Seq<u8> { seq![66u8, 76u8, 83u8, 95u8, 83u8, 73u8, 71u8, 95u8, 66u8, 76u8, 83u8, 49u8, 50u8, 51u8, 56u8, 49u8, 71u8, 49u8, 95u8, 88u8, 77u8, 68u8, 58u8, 83u8, 72u8, 65u8, 45u8, 50u8, 53u8, 54u8, 95u8, 83u8, 83u8, 87u8, 85u8, 95u8, 82u8, 79u8, 95u8, 78u8, 85u8, 76u8, 95u8] } // "BLS_SIG_BLS12381G1_XMD:SHA-256_SSWU_RO_NUL_"
pub open spec fn ietf_Bls12381G1Impl__BlsSignatureMessageAugmentation__DST() -> Seq<u8> { seq![66u8, 76u8, 83u8, 95u8, 83u8, 73u8, 71u8, 95u8, 66u8, 76u8, 83u8, 49u8, 50u8, 51u8, 56u8, 49u8, 71u8, 49u8, 95u8, 88u8, 77u8, 68u8, 58u8, 83u8, 72u8, 65u8, 45u8, 50u8, 53u8, 54u8, 95u8, 83u8, 83u8, 87u8, 85u8, 95u8, 82u8, 79u8, 95u8, 65u8, 85u8, 71u8, 95u8] } // "BLS_SIG_BLS12381G1_XMD:SHA-256_SSWU_RO_AUG_"
pub open spec fn ietf_Bls12381G1Impl__BlsSignaturePop__SIG_DST() -> Seq<u8> { seq![66u8, 76u8, 83u8, 95u8, 83u8, 73u8, 71u8, 95u8, 66u8, 76u8, 83u8, 49u8, 50u8, 51u8, 56u8, 49u8, 71u8, 49u8, 95u8, 88u8, 77u8, 68u8, 58u8, 83u8, 72u8, 65u8, 45u8, 50u8, 53u8, 54u8, 95u8, 83u8, 83u8, 87u8, 85u8, 95u8, 82u8, 79u8, 95u8, 80u8, 79u8, 80u8, 95u8] } // "BLS_SIG_BLS12381G1_XMD:SHA-256_SSWU_RO_POP_"
pub open spec fn ietf_Bls12381G1Impl__BlsSignaturePop__POP_DST() -> Seq<u8> { seq![66u8, 76u8, 83u8, 95u8, 80u8, 79u8, 80u8, 95u8, 66u8, 76u8, 83u8, 49u8, 50u8, 51u8, 56u8, 49u8, 71u8, 49u8, 95u8, 88u8, 77u8, 68u8, 58u8, 83u8, 72u8, 65u8, 45u8, 50u8, 53u8, 54u8, 95u8, 83u8, 83u8, 87u8, 85u8, 95u8, 82u8, 79u8, 95u8, 80u8, 79u8, 80u8, 95u8] } // "BLS_POP_BLS12381G1_XMD:SHA-256_SSWU_RO_POP_"
pub open spec fn ietf_Bls12381G2Impl__BlsSignatureBasic__DST() -> Seq<u8> { seq![66u8, 76u8, 83u8, 95u8, 83u8, 73u8, 71u8, 95u8, 66u8, 76u8, 83u8, 49u8, 50u8, 51u8, 56u8, 49u8, 71u8, 50u8, 95u8, 88u8, 77u8, 68u8, 58u8, 83u8, 72u8, 65u8, 45u8, 50u8, 53u8, 54u8, 95u8, 83u8, 83u8, 87u8, 85u8, 95u8, 82u8, 79u8, 95u8, 78u8, 85u8, 76u8, 95u8] } // "BLS_SIG_BLS12381G2_XMD:SHA-256_SSWU_RO_NUL_"
pub open spec fn ietf_Bls12381G2Impl__BlsSignatureMessageAugmentation__DST() -> Seq<u8> { seq![66u8, 76u8, 83u8, 95u8, 83u8, 73u8, 71u8, 95u8, 66u8, 76u8, 83u8, 49u8, 50u8, 51u8, 56u8, 49u8, 71u8, 50u8, 95u8, 88u8, 77u8, 68u8, 58u8, 83u8, 72u8, 65u8, 45u8, 50u8, 53u8, 54u8, 95u8, 83u8, 83u8, 87u8, 85u8, 95u8, 82u8, 79u8, 95u8, 65u8, 85u8, 71u8, 95u8] } // "BLS_SIG_BLS12381G2_XMD:SHA-256_SSWU_RO_AUG_"
pub open spec fn ietf_Bls12381G2Impl__BlsSignaturePop__SIG_DST() -> Seq<u8> { seq![66u8, 76u8, 83u8, 95u8, 83u8, 73u8, 71u8, 95u8, 66u8, 76u8, 83u8, 49u8, 50u8, 51u8, 56u8, 49u8, 71u8, 50u8, 95u8, 88u8, 77u8, 68u8, 58u8, 83u8, 72u8, 65u8, 45u8, 50u8, 53u8, 54u8, 95u8, 83u8, 83u8, 87u8, 85u8, 95u8, 82u8, 79u8, 95u8, 80u8, 79u8, 80u8, 95u8] } // "BLS_SIG_BLS12381G2_XMD:SHA-256_SSWU_RO_POP_"
pub open spec fn ietf_Bls12381G2Impl__BlsSignaturePop__POP_DST() -> Seq<u8> { seq![66u8, 76u8, 83u8, 95u8, 80u8, 79u8, 80u8, 95u8, 66u8, 76u8, 83u8, 49u8, 50u8, 51u8, 56u8, 49u8, 71u8, 50u8, 95u8, 88u8, 77u8, 68u8, 58u8, 83u8, 72u8, 65u8, 45u8, 50u8, 53u8, 54u8, 95u8, 83u8, 83u8, 87u8, 85u8, 95u8, 82u8, 79u8, 95u8, 80u8, 79u8, 80u8, 95u8] } // "BLS_POP_BLS12381G2_XMD:SHA-256_SSWU_RO_POP_"
pub open spec fn ietf_KEYGEN_SALT() -> Seq<u8> { seq![66u8, 76u8, 83u8, 45u8, 83u8, 73u8, 71u8, 45u8, 75u8, 69u8, 89u8, 71u8, 69u8, 78u8, 45u8, 83u8, 65u8, 76u8, 84u8, 45u8] } // "BLS-SIG-KEYGEN-SALT-"

pub proof fn c05_tags_equal_the_ietf_strings()
    ensures
        Bls12381G1Impl__BlsSignatureBasic__DST_spec() == ietf_Bls12381G1Impl__BlsSignatureBasic__DST(),
        Bls12381G1Impl__BlsSignatureMessageAugmentation__DST_spec() == ietf_Bls12381G1Impl__BlsSignatureMessageAugmentation__DST(),
        Bls12381G1Impl__BlsSignaturePop__SIG_DST_spec() == ietf_Bls12381G1Impl__BlsSignaturePop__SIG_DST(),
        Bls12381G1Impl__BlsSignaturePop__POP_DST_spec() == ietf_Bls12381G1Impl__BlsSignaturePop__POP_DST(),
        Bls12381G2Impl__BlsSignatureBasic__DST_spec() == ietf_Bls12381G2Impl__BlsSignatureBasic__DST(),
        Bls12381G2Impl__BlsSignatureMessageAugmentation__DST_spec() == ietf_Bls12381G2Impl__BlsSignatureMessageAugmentation__DST(),
        Bls12381G2Impl__BlsSignaturePop__SIG_DST_spec() == ietf_Bls12381G2Impl__BlsSignaturePop__SIG_DST(),
        Bls12381G2Impl__BlsSignaturePop__POP_DST_spec() == ietf_Bls12381G2Impl__BlsSignaturePop__POP_DST(),
        KEYGEN_SALT_spec() == ietf_KEYGEN_SALT(),
{
    assert(Bls12381G1Impl__BlsSignatureBasic__DST_spec() =~= ietf_Bls12381G1Impl__BlsSignatureBasic__DST());
    assert(Bls12381G1Impl__BlsSignatureMessageAugmentation__DST_spec() =~= ietf_Bls12381G1Impl__BlsSignatureMessageAugmentation__DST());
    assert(Bls12381G1Impl__BlsSignaturePop__SIG_DST_spec() =~= ietf_Bls12381G1Impl__BlsSignaturePop__SIG_DST());
    assert(Bls12381G1Impl__BlsSignaturePop__POP_DST_spec() =~= ietf_Bls12381G1Impl__BlsSignaturePop__POP_DST());
    assert(Bls12381G2Impl__BlsSignatureBasic__DST_spec() =~= ietf_Bls12381G2Impl__BlsSignatureBasic__DST());
    assert(Bls12381G2Impl__BlsSignatureMessageAugmentation__DST_spec() =~= ietf_Bls12381G2Impl__BlsSignatureMessageAugmentation__DST());
    assert(Bls12381G2Impl__BlsSignaturePop__SIG_DST_spec() =~= ietf_Bls12381G2Impl__BlsSignaturePop__SIG_DST());
    assert(Bls12381G2Impl__BlsSignaturePop__POP_DST_spec() =~= ietf_Bls12381G2Impl__BlsSignaturePop__POP_DST());
    assert(KEYGEN_SALT_spec() =~= ietf_KEYGEN_SALT());
}


// ---------------------------------------------------------------------------------------------
// C14 — ElGamal: correct, additively homomorphic, proofs bind ciphertext and key.
// ---------------------------------------------------------------------------------------------
/// (b*X + m*g) - x*(b*1) == m*g      with X == 1*x
pub proof fn lemma_eg_decrypt(b: int, x: int, m: int, g: int)
    requires inr(b), inr(x), inr(m), inr(g),
    ensures fsub(fadd(fmul(fmul(1, x), b), fmul(g, m)), fmul(fmul(1, b), x)) == fmul(g, m)
{
    broadcast use ring;
    assert(fmul(1, x) == fmul(x, 1));
    assert(fmul(1, b) == fmul(b, 1));
    let t = fmul(x, b);
    assert(fmul(b, x) == t);
    // (t + gm) + (-t) == gm
    assert(fadd(fadd(t, fmul(g, m)), fneg(t)) == fadd(fadd(fmul(g, m), t), fneg(t)));
    lemma_add_assoc(fmul(g, m), t, fneg(t));
    assert(fadd(fadd(fmul(g, m), t), fneg(t)) == fadd(fmul(g, m), fadd(t, fneg(t))));
}

/// decrypt(encrypt(m)) == m * generator, for every recipient key, plaintext scalar and blinder
pub fn c14_decrypt_of_encrypt(sk: &SecretKey, m: Scalar, b: Scalar, rng: ChaCha20Rng)
    requires sk.0.val() != 0,
{
    let pk = sk.public_key();
    let ct = BlsElGamal__seal_scalar(pk.0, m, None, Some(b), rng);
    proof { broadcast use lemma_mul_comm, lemma_mul_one; assert(pk.0.dl() == sk.0.val()); }
    match ct {
        Ok((c1, c2)) => {
            let p = BlsElGamal__decrypt(sk.0, c1, c2);
            proof {
                lemma_eg_decrypt(b.val(), sk.0.val(), m.val(), eg_gen().dl());
            }
            assert(p == pk_mul(eg_gen(), m));
        }
        Err(_) => { assert(eg_gen().dl() == 0); }   // only if the fixed generator were the identity
    }
}

/// component-wise sums decrypt to the sum of the plaintexts
pub fn c14_homomorphic(sk: &SecretKey, a: ElGamalCiphertext, b: ElGamalCiphertext)
{
    let s = a.add_ct(b);
    let pa = BlsElGamal__decrypt(sk.0, a.c1, a.c2);
    let pb = BlsElGamal__decrypt(sk.0, b.c1, b.c2);
    let ps = BlsElGamal__decrypt(sk.0, s.c1, s.c2);
    proof {
        lemma_eg_sum(a.c1.dl(), a.c2.dl(), b.c1.dl(), b.c2.dl(), sk.0.val());
    }
    assert(ps == pk_add(pa, pb));
    // every operator form the library offers computes the SAME component-wise sum
    let s1 = a.add_ct_ref_ref(&b);
    let s2 = a.add_ct_val_ref(&b);
    let s3 = a.add_ct_ref_val(b);
    let mut s4 = a;
    s4.add_assign_ct(b);
    let mut s5 = a;
    s5.add_assign_ct_ref(&b);
    assert(s1 == s && s2 == s && s3 == s && s4 == s && s5 == s);
    // the wrapper-level decryptions agree with the trait-level one
    let w = s.decrypt(sk);
    assert(w == ps);
    let dk = ElGamalDecryptionKey(s.c1 * sk.0);
    let w2 = dk.decrypt(&s);
    assert(w2 == ps);
}
/// (a2+b2) - (a1+b1)x == (a2 - a1 x) + (b2 - b1 x)
pub proof fn lemma_eg_sum(a1: int, a2: int, b1: int, b2: int, x: int)
    requires inr(a1), inr(a2), inr(b1), inr(b2), inr(x),
    ensures fsub(fadd(a2, b2), fmul(fadd(a1, b1), x)) == fadd(fsub(a2, fmul(a1, x)), fsub(b2, fmul(b1, x)))
{
    let p = fmul(a1, x);
    let q = fmul(b1, x);
    // (a1 + b1) * x == p + q
    lemma_mul_comm(fadd(a1, b1), x);
    lemma_distrib(x, a1, b1);
    lemma_mul_comm(x, a1); lemma_mul_comm(x, b1);
    assert(fmul(fadd(a1, b1), x) == fadd(p, q));
    lemma_range_mul(a1, x); lemma_range_mul(b1, x);
    lemma_neg_add(p, q);
    lemma_add_swap4(a2, b2, fneg(p), fneg(q));
}

/// the proof binds ciphertext, proof scalars, challenge and key: acceptance pins the challenge to
/// the transcript of (pk, generator, c1, c2, r1', r2'), where r1', r2' are functions of exactly
/// those values — changing any of them changes a transcript input (enc is injective; X-RO on the
/// transcript hash), and the identity/zero guards hold
pub fn c14_proof_binding(p: &ElGamalProof, pk: PublicKey)
{
    let v = p.verify(pk);
    assert(v is Ok ==> p.challenge == eg_challenge(pk.0, eg_gen(), p.ciphertext.c1, p.ciphertext.c2,
        eg_r1v(p.ciphertext.c1, p.blinder_proof, p.challenge), eg_r2v(pk.0, eg_gen(), p.ciphertext.c2, p.message_proof, p.blinder_proof, p.challenge)));
    assert(v is Ok ==> eg_guards(pk.0, eg_gen(), p.ciphertext.c1, p.ciphertext.c2, p.message_proof, p.blinder_proof, p.challenge));
}

/// verify-and-decrypt recomputes the public key from the given secret key: with a non-matching
/// secret key the transcript is that of ANOTHER key (X-RO: the challenge differs), and the zero key
/// is refused
pub fn c14_verify_and_decrypt_uses_own_key(p: &ElGamalProof, sk: &SecretKey)
{
    let r = p.verify_and_decrypt(sk);
    assert(r is Ok ==> sk.0.val() != 0);
    assert(r is Ok ==> r->Ok_0 == pk_sub(p.ciphertext.c2, pk_mul(p.ciphertext.c1, sk.0)));
}

/// a decryption key recombined from decryption shares c1 * v_i of scalar shares that recombine to
/// the key decrypts exactly as the secret key does
pub fn c14_key_from_shares_decrypts(ct: &ElGamalCiphertext, sk: &SecretKey, shares: &[ElGamalDecryptionShare], Ghost(f): Ghost<Seq<SkShare>>)
    requires
        f.len() == shares@.len(),
        forall|i: int| 0 <= i < f.len() ==> share_scalar((#[trigger] f[i]).val()) is Some && shares@[i].0.id() == f[i].id()
            && shares@[i].0.val() == pk_enc(pk_mul(ct.c1, share_scalar(f[i].val())->Some_0)),
        combined(f) == Some(sk.0),
{
    proof {
        assert(pk_shares_of(f, egshares_raw(shares@), ct.c1));
        lemma_combine_linear_pk(f, egshares_raw(shares@), ct.c1);
    }
    let k = ElGamalDecryptionKey::from_shares(shares);
    assert(k is Ok);
    match k {
        Ok(k) => {
            let a = k.decrypt(ct);
            let b = ct.decrypt(sk);
            assert(a == b);
        }
        Err(_) => {}
    }
}

/// verifier's recomputation gives back the prover's commitments:
///   -c*(b) + (r + c*b)            == r                 (r1, in units of G)
///   -c*(b*x + m*g) + (b + c*m)*g + (r + c*b)*x  == r*x + b*g     (r2)
pub proof fn lemma_eg_completeness(b: int, r: int, c: int, m: int, x: int, g: int)
    requires inr(b), inr(r), inr(c), inr(m), inr(x), inr(g),
    ensures
        fadd(fmul(fmul(1, b), fneg(c)), fmul(1, fadd(r, fmul(c, b)))) == fmul(1, r),
        fadd(fadd(fmul(fadd(fmul(x, b), fmul(g, m)), fneg(c)), fmul(g, fadd(b, fmul(c, m)))), fmul(x, fadd(r, fmul(c, b))))
            == fadd(fmul(x, r), fmul(g, b)),
{
    // ---- r1 ----
    lemma_mul_comm(1, b); lemma_mul_one(b);
    lemma_range_add(r, fmul(c, b)); lemma_range_mul(c, b);
    lemma_mul_comm(1, fadd(r, fmul(c, b))); lemma_mul_one(fadd(r, fmul(c, b)));
    lemma_mul_comm(1, r); lemma_mul_one(r);
    lemma_mul_neg(b, c);                       // b*(-c) == -(b*c)
    lemma_mul_comm(b, c);
    let cb = fmul(c, b);
    // -(cb) + (r + cb) == r
    lemma_add_comm(r, cb);
    lemma_add_assoc(fneg(cb), cb, r);
    lemma_add_comm(fneg(cb), cb); lemma_add_neg(cb);
    lemma_add_comm(0, r); lemma_add_zero(r);
    assert(fadd(fneg(cb), fadd(cb, r)) == r);
    // ---- r2 ----
    let xb = fmul(x, b); let gm = fmul(g, m); let xr = fmul(x, r); let gb = fmul(g, b);
    lemma_range_mul(x, b); lemma_range_mul(g, m); lemma_range_mul(x, r); lemma_range_mul(g, b); lemma_range_mul(c, m);
    // (xb + gm)*(-c) == -(c*xb) + -(c*gm)
    lemma_mul_neg(fadd(xb, gm), c);
    lemma_mul_comm(fadd(xb, gm), c);
    lemma_distrib(c, xb, gm);
    let cxb = fmul(c, xb); let cgm = fmul(c, gm);
    lemma_range_mul(c, xb); lemma_range_mul(c, gm);
    lemma_neg_add(cxb, cgm);
    // g*(b + c*m) == gb + c*gm
    lemma_distrib(g, b, fmul(c, m));
    lemma_mul_assoc(g, c, m); lemma_mul_comm(g, c); lemma_mul_assoc(c, g, m);
    assert(fmul(g, fmul(c, m)) == cgm);
    // x*(r + c*b) == xr + c*xb
    lemma_distrib(x, r, cb);
    lemma_mul_assoc(x, c, b); lemma_mul_comm(x, c); lemma_mul_assoc(c, x, b);
    assert(fmul(x, cb) == cxb);
    // (-cxb + -cgm) + (gb + cgm) + (xr + cxb) == xr + gb
    let n1 = fneg(cxb); let n2 = fneg(cgm);
    lemma_range_neg(cxb); lemma_range_neg(cgm);
    // first two groups: (n1 + n2) + (gb + cgm) == (n1 + gb) + (n2 + cgm) == n1 + gb
    lemma_add_swap4(n1, n2, gb, cgm);
    lemma_add_comm(n2, cgm); lemma_add_neg(cgm);
    lemma_range_add(n1, gb); lemma_add_zero(fadd(n1, gb));
    assert(fadd(fadd(n1, n2), fadd(gb, cgm)) == fadd(n1, gb));
    // (n1 + gb) + (xr + cxb) == (n1 + cxb) + (gb + xr) == gb + xr
    lemma_add_comm(xr, cxb);
    lemma_add_swap4(n1, gb, cxb, xr);
    lemma_add_comm(n1, cxb); lemma_add_neg(cxb);
    lemma_range_add(gb, xr); lemma_add_comm(0, fadd(gb, xr)); lemma_add_zero(fadd(gb, xr));
    lemma_add_comm(gb, xr);
}

/// proof completeness: the proof attached to an honest ciphertext verifies for the recipient key and
/// decrypts under the recipient's secret key to m * generator (hypotheses: the values an honest
/// prover draws are non-zero — true except with negligible probability)
pub fn c14_honest_proof_verifies(sk: &SecretKey, m: &SecretKey)
    requires sk.0.val() != 0, eg_gen().dl() != 0,
{
    let pk = sk.public_key();
    proof { lemma_mul_comm(1, sk.0.val()); lemma_mul_one(sk.0.val()); }
    let p = pk.encrypt_key_el_gamal_with_proof(m);
    assert(p is Ok);
    match p {
        Ok(p) => {
            proof {
                let (b, r) = choose|b: Scalar, r: Scalar| #[trigger] eg_proof_from(b, r, pk.0, m.0, eg_gen(), egp_tuple(p));
                let c = p.challenge;
                lemma_eg_completeness(b.val(), r.val(), c.val(), m.0.val(), pk.0.dl(), eg_gen().dl());
                lemma_mul_comm(c.val(), m.0.val()); lemma_mul_comm(c.val(), b.val());
                assert(eg_r1v(p.ciphertext.c1, p.blinder_proof, c) == eg_c1(r));
                assert(eg_r2v(pk.0, eg_gen(), p.ciphertext.c2, p.message_proof, p.blinder_proof, c) == eg_c2(pk.0, b, eg_gen(), r));
            }
            let v = p.verify(pk);
            // X-NONZERO: ciphertext components, proof scalars and challenge of an honest proof are non-zero
            assert(eg_guards(pk.0, eg_gen(), p.ciphertext.c1, p.ciphertext.c2, p.message_proof, p.blinder_proof, p.challenge) ==> v is Ok);
            let d = p.verify_and_decrypt(sk);
            assert(v is Ok ==> d is Ok && d->Ok_0 == pk_sub(p.ciphertext.c2, pk_mul(p.ciphertext.c1, sk.0)));
        }
        Err(_) => {}
    }
}

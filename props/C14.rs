// ---------------------------------------------------------------------------------------------
// C14 — ElGamal: correct, additively homomorphic, proofs bind ciphertext and key.
// ---------------------------------------------------------------------------------------------
/// (b*X + m*g) - x*(b*1) == m*g      with X == 1*x
pub proof fn lemma_eg_decrypt(b: int, x: int, m: int, g: int)
    requires inr(b), inr(x), inr(m), inr(g),
    ensures fsub(fadd(fmul(fmul(1, x), b), fmul(g, m)), fmul(fmul(1, b), x)) == fmul(g, m)
{
    broadcast use ring;
    assert(fmul(1, x) == fmul(x, 1));
    assert(fmul(1, b) == fmul(b, 1));
    let t = fmul(x, b);
    assert(fmul(b, x) == t);
    // (t + gm) + (-t) == gm
    assert(fadd(fadd(t, fmul(g, m)), fneg(t)) == fadd(fadd(fmul(g, m), t), fneg(t)));
    lemma_add_assoc(fmul(g, m), t, fneg(t));
    assert(fadd(fadd(fmul(g, m), t), fneg(t)) == fadd(fmul(g, m), fadd(t, fneg(t))));
}

/// decrypt(encrypt(m)) == m * generator, for every recipient key, plaintext scalar and blinder
pub fn c14_decrypt_of_encrypt(sk: &SecretKey, m: Scalar, b: Scalar, rng: ChaCha20Rng)
    requires sk.0.val() != 0,
{
    let pk = sk.public_key();
    let ct = BlsElGamal__seal_scalar(pk.0, m, None, Some(b), rng);
    proof { broadcast use lemma_mul_comm, lemma_mul_one; assert(pk.0.dl() == sk.0.val()); }
    match ct {
        Ok((c1, c2)) => {
            let p = BlsElGamal__decrypt(sk.0, c1, c2);
            proof {
                lemma_eg_decrypt(b.val(), sk.0.val(), m.val(), eg_gen().dl());
            }
            assert(p == pk_mul(eg_gen(), m));
        }
        Err(_) => { assert(eg_gen().dl() == 0); }   // only if the fixed generator were the identity
    }
}

/// component-wise sums decrypt to the sum of the plaintexts
pub fn c14_homomorphic(sk: &SecretKey, a: ElGamalCiphertext, b: ElGamalCiphertext)
{
    let s = a.add_ct(b);
    let pa = BlsElGamal__decrypt(sk.0, a.c1, a.c2);
    let pb = BlsElGamal__decrypt(sk.0, b.c1, b.c2);
    let ps = BlsElGamal__decrypt(sk.0, s.c1, s.c2);
    proof {
        lemma_eg_sum(a.c1.dl(), a.c2.dl(), b.c1.dl(), b.c2.dl(), sk.0.val());
    }
    assert(ps == pk_add(pa, pb));
    // every operator form the library offers computes the SAME component-wise sum
    let s1 = a.add_ct_ref_ref(&b);
    let s2 = a.add_ct_val_ref(&b);
    let s3 = a.add_ct_ref_val(b);
    let mut s4 = a;
    s4.add_assign_ct(b);
    let mut s5 = a;
    s5.add_assign_ct_ref(&b);
    assert(s1 == s && s2 == s && s3 == s && s4 == s && s5 == s);
    // the wrapper-level decryptions agree with the trait-level one
    let w = s.decrypt(sk);
    assert(w == ps);
    let dk = ElGamalDecryptionKey(s.c1 * sk.0);
    let w2 = dk.decrypt(&s);
    assert(w2 == ps);
}
/// (a2+b2) - (a1+b1)x == (a2 - a1 x) + (b2 - b1 x)
pub proof fn lemma_eg_sum(a1: int, a2: int, b1: int, b2: int, x: int)
    requires inr(a1), inr(a2), inr(b1), inr(b2), inr(x),
    ensures fsub(fadd(a2, b2), fmul(fadd(a1, b1), x)) == fadd(fsub(a2, fmul(a1, x)), fsub(b2, fmul(b1, x)))
{
    let p = fmul(a1, x);
    let q = fmul(b1, x);
    // (a1 + b1) * x == p + q
    lemma_mul_comm(fadd(a1, b1), x);
    lemma_distrib(x, a1, b1);
    lemma_mul_comm(x, a1); lemma_mul_comm(x, b1);
    assert(fmul(fadd(a1, b1), x) == fadd(p, q));
    lemma_range_mul(a1, x); lemma_range_mul(b1, x);
    lemma_neg_add(p, q);
    lemma_add_swap4(a2, b2, fneg(p), fneg(q));
}

/// the proof binds ciphertext, proof scalars, challenge and key: acceptance pins the challenge to
/// the transcript of (pk, generator, c1, c2, r1', r2'), where r1', r2' are functions of exactly
/// those values — changing any of them changes a transcript input (enc is injective; X-RO on the
/// transcript hash), and the identity/zero guards hold
pub fn c14_proof_binding(p: &ElGamalProof, pk: PublicKey)
{
    let v = p.verify(pk);
    assert(v is Ok ==> p.challenge == eg_challenge(pk.0, eg_gen(), p.ciphertext.c1, p.ciphertext.c2,
        eg_r1v(p.ciphertext.c1, p.blinder_proof, p.challenge), eg_r2v(pk.0, eg_gen(), p.ciphertext.c2, p.message_proof, p.blinder_proof, p.challenge)));
    assert(v is Ok ==> eg_guards(pk.0, eg_gen(), p.ciphertext.c1, p.ciphertext.c2, p.message_proof, p.blinder_proof, p.challenge));
}

/// verify-and-decrypt recomputes the public key from the given secret key: with a non-matching
/// secret key the transcript is that of ANOTHER key (X-RO: the challenge differs), and the zero key
/// is refused
pub fn c14_verify_and_decrypt_uses_own_key(p: &ElGamalProof, sk: &SecretKey)
{
    let r = p.verify_and_decrypt(sk);
    assert(r is Ok ==> sk.0.val() != 0);
    assert(r is Ok ==> r->Ok_0 == pk_sub(p.ciphertext.c2, pk_mul(p.ciphertext.c1, sk.0)));
}

/// a decryption key recombined from decryption shares c1 * v_i of scalar shares that recombine to
/// the key decrypts exactly as the secret key does
pub fn c14_key_from_shares_decrypts(ct: &ElGamalCiphertext, sk: &SecretKey, shares: &[ElGamalDecryptionShare], Ghost(f): Ghost<Seq<SkShare>>)
    requires
        f.len() == shares@.len(),
        forall|i: int| 0 <= i < f.len() ==> share_scalar((#[trigger] f[i]).val()) is Some && shares@[i].0.id() == f[i].id()
            && shares@[i].0.val() == pk_enc(pk_mul(ct.c1, share_scalar(f[i].val())->Some_0)),
        combined(f) == Some(sk.0),
{
    proof {
        assert(pk_shares_of(f, egshares_raw(shares@), ct.c1));
        lemma_combine_linear_pk(f, egshares_raw(shares@), ct.c1);
    }
    let k = ElGamalDecryptionKey::from_shares(shares);
    assert(k is Ok);
    match k {
        Ok(k) => {
            let a = k.decrypt(ct);
            let b = ct.decrypt(sk);
            assert(a == b);
        }
        Err(_) => {}
    }
}

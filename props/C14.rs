// ---------------------------------------------------------------------------------------------
// C14 — ElGamal: correct, additively homomorphic, proofs bind ciphertext and key.
// ---------------------------------------------------------------------------------------------
/// (b*X + m*g) - x*(b*1) == m*g      with X == 1*x
pub proof fn lemma_eg_decrypt(b: int, x: int, m: int, g: int)
    requires inr(b), inr(x), inr(m), inr(g),
    ensures fsub(fadd(fmul(fmul(1, x), b), fmul(g, m)), fmul(fmul(1, b), x)) == fmul(g, m)
{
    broadcast use ring;
    assert(fmul(1, x) == fmul(x, 1));
    assert(fmul(1, b) == fmul(b, 1));
    let t = fmul(x, b);
    assert(fmul(b, x) == t);
    // (t + gm) + (-t) == gm
    assert(fadd(fadd(t, fmul(g, m)), fneg(t)) == fadd(fadd(fmul(g, m), t), fneg(t)));
    assert(fadd(fadd(fmul(g, m), t), fneg(t)) == fadd(fmul(g, m), fadd(t, fneg(t))));
}

/// decrypt(encrypt(m)) == m * generator, for every recipient key, plaintext scalar and blinder
pub fn c14_decrypt_of_encrypt(sk: &SecretKey, m: Scalar, b: Scalar, rng: ChaCha20Rng)
    requires sk.0.val() != 0,
{
    let pk = sk.public_key();
    let ct = BlsElGamal__seal_scalar(pk.0, m, None, Some(b), rng);
    proof { broadcast use lemma_mul_comm, lemma_mul_one; assert(pk.0.dl() == sk.0.val()); }
    match ct {
        Ok((c1, c2)) => {
            let p = BlsElGamal__decrypt(sk.0, c1, c2);
            proof {
                lemma_eg_decrypt(b.val(), sk.0.val(), m.val(), eg_gen().dl());
            }
            assert(p == pk_mul(eg_gen(), m));
        }
        Err(_) => { assert(eg_gen().dl() == 0); }   // only if the fixed generator were the identity
    }
}

/// component-wise sums decrypt to the sum of the plaintexts
pub fn c14_homomorphic(sk: &SecretKey, a: ElGamalCiphertext, b: ElGamalCiphertext)
{
    let s = a.add_ct(b);
    let pa = BlsElGamal__decrypt(sk.0, a.c1, a.c2);
    let pb = BlsElGamal__decrypt(sk.0, b.c1, b.c2);
    let ps = BlsElGamal__decrypt(sk.0, s.c1, s.c2);
    proof {
        lemma_eg_sum(a.c1.dl(), a.c2.dl(), b.c1.dl(), b.c2.dl(), sk.0.val());
    }
    assert(ps == pk_add(pa, pb));
}
/// (a2+b2) - (a1+b1)x == (a2 - a1 x) + (b2 - b1 x)
pub proof fn lemma_eg_sum(a1: int, a2: int, b1: int, b2: int, x: int)
    requires inr(a1), inr(a2), inr(b1), inr(b2), inr(x),
    ensures fsub(fadd(a2, b2), fmul(fadd(a1, b1), x)) == fadd(fsub(a2, fmul(a1, x)), fsub(b2, fmul(b1, x)))
{
    broadcast use ring;
    let p = fmul(a1, x);
    let q = fmul(b1, x);
    assert(fmul(fadd(a1, b1), x) == fmul(x, fadd(a1, b1)));
    assert(fmul(x, fadd(a1, b1)) == fadd(fmul(x, a1), fmul(x, b1)));
    assert(fmul(x, a1) == p && fmul(x, b1) == q);
    // -(p+q) == -p + -q
    assert(fadd(fadd(p, q), fadd(fneg(p), fneg(q))) == fadd(fadd(p, fneg(p)), fadd(q, fneg(q)))) by {
        assert(fadd(fadd(p, q), fadd(fneg(p), fneg(q))) == fadd(p, fadd(q, fadd(fneg(p), fneg(q)))));
        assert(fadd(q, fadd(fneg(p), fneg(q))) == fadd(fadd(q, fneg(p)), fneg(q)));
        assert(fadd(q, fneg(p)) == fadd(fneg(p), q));
        assert(fadd(fadd(fneg(p), q), fneg(q)) == fadd(fneg(p), fadd(q, fneg(q))));
        assert(fadd(p, fadd(fneg(p), fadd(q, fneg(q)))) == fadd(fadd(p, fneg(p)), fadd(q, fneg(q))));
    }
    lemma_range_add(p, q); lemma_range_add(fneg(p), fneg(q));
    lemma_neg_unique(fadd(p, q), fadd(fneg(p), fneg(q)));
    assert(fadd(fadd(a2, b2), fadd(fneg(p), fneg(q))) == fadd(fadd(a2, fneg(p)), fadd(b2, fneg(q)))) by {
        assert(fadd(fadd(a2, b2), fadd(fneg(p), fneg(q))) == fadd(a2, fadd(b2, fadd(fneg(p), fneg(q)))));
        assert(fadd(b2, fadd(fneg(p), fneg(q))) == fadd(fadd(b2, fneg(p)), fneg(q)));
        assert(fadd(b2, fneg(p)) == fadd(fneg(p), b2));
        assert(fadd(fadd(fneg(p), b2), fneg(q)) == fadd(fneg(p), fadd(b2, fneg(q))));
        assert(fadd(a2, fadd(fneg(p), fadd(b2, fneg(q)))) == fadd(fadd(a2, fneg(p)), fadd(b2, fneg(q))));
    }
}

/// the proof binds ciphertext, proof scalars, challenge and key: acceptance pins the challenge to
/// the transcript of (pk, generator, c1, c2, r1', r2'), where r1', r2' are functions of exactly
/// those values — changing any of them changes a transcript input (enc is injective; X-RO on the
/// transcript hash), and the identity/zero guards hold
pub fn c14_proof_binding(p: &ElGamalProof, pk: PublicKey)
{
    let v = p.verify(pk);
    assert(v is Ok ==> p.challenge == eg_challenge(pk.0, eg_gen(), p.ciphertext.c1, p.ciphertext.c2,
        eg_r1v(p.ciphertext.c1, p.blinder_proof, p.challenge), eg_r2v(pk.0, eg_gen(), p.ciphertext.c2, p.message_proof, p.blinder_proof, p.challenge)));
    assert(v is Ok ==> eg_guards(pk.0, eg_gen(), p.ciphertext.c1, p.ciphertext.c2, p.message_proof, p.blinder_proof, p.challenge));
}

/// verify-and-decrypt recomputes the public key from the given secret key: with a non-matching
/// secret key the transcript is that of ANOTHER key (X-RO: the challenge differs), and the zero key
/// is refused
pub fn c14_verify_and_decrypt_uses_own_key(p: &ElGamalProof, sk: &SecretKey)
{
    let r = p.verify_and_decrypt(sk);
    assert(r is Ok ==> sk.0.val() != 0);
    assert(r is Ok ==> r->Ok_0 == pk_sub(p.ciphertext.c2, pk_mul(p.ciphertext.c1, sk.0)));
}

// ---------------------------------------------------------------------------------------------
// C13 — time-lock ciphertexts open only with the signature over their identifier.
// ---------------------------------------------------------------------------------------------
/// exact recovery, for every message (any length), identifier (incl. empty) and ALL three schemes:
/// the ciphertext is bound to exactly what the scheme's signature over the identifier hashes
pub fn c13_round_trip(sk: &SecretKey, scheme: SignatureSchemes, msg: &[u8], id: &[u8])
    requires sk.0.val() != 0,
{
    let pk = sk.public_key();
    let ct = pk.encrypt_time_lock(scheme, msg, id);
    let sig = sk.sign(scheme, id);
    proof { broadcast use lemma_mul_comm, lemma_mul_one; assert(fmul(1, sk.0.val()) == fmul(sk.0.val(), 1)); }
    assert(ct is Ok && sig is Ok);
    match (ct, sig) {
        (Ok(ct), Ok(sig)) => {
            let m = ct.decrypt(&sig);
            proof {
                broadcast use lemma_pair_sum_len1;
                let idh = scheme_msg(scheme, pk.0, id@);
                let g = choose|g: ChaCha20Rng| #[trigger] tcc_sealed_from(g, pk.0, msg@, idh, ct);
                let d = scheme_dst(scheme);
                let alpha = hs(draw_bytes(g.state(), 32), time_crypt__SALT_spec());
                let r = tc_r(scalar_le(alpha), msg@);
                let x = sk.0.val();
                let h = hp(idh, d).dl();
                // sealer's pairing value:  h * (x * r)    opener's:  (h * x) * r
                lemma_tc_same_key(h, x, r.val());
                let ks = seq![(hp(idh, d), pk_mul(pk.0, r))];
                let ko = seq![(sig_point(sig), ct.u)];
                assert(pair_sum(ks) == pair_sum(ko));
                let k = gt_of(pair_sum(ko));
                // alpha' == alpha
                lemma_xor_involution(scalar_le(alpha), sha256(gt_enc(k)));
                assert(tc_v(k, ct.v@) =~= scalar_le(alpha));
                // payload' == frame(msg)
                let frame = sc_frame(msg@);
                lemma_xor_involution(frame, shake128(scalar_le(alpha), frame.len()));
                assert(tc_w(scalar_le(alpha), ct.w@) =~= frame);
                lemma_unframe_frame(msg@);
                assert(tc_unframe(frame) == Some(msg@));
                // r' == r, hence r'*G - u == O
                lemma_sub_self(ct.u.dl());
                broadcast use lemma_mul_comm, lemma_mul_one;
                assert(ct.u.dl() == r.val());
                assert(tc_r(tc_v(k, ct.v@), msg@) == r);
                assert(pk_sub(pk_mul(pk_of(1), r), ct.u).dl() == 0);
                assert(tc_open(ct.u, ct.v@, ct.w@, sig_point(sig), true, k) == (if sig_point(sig).dl() != 0 { Some(msg@) } else { None }));
            }
            // identity decryption key (X-NONID) and identity U (r != 0 is proved) aside, it opens:
            assert(sig_point(sig).dl() != 0 ==> m.is_some_spec() && m.value()@ == msg@);
        }
        _ => {}
    }
}

pub proof fn lemma_tc_same_key(h: int, x: int, r: int)
    requires inr(h), inr(x), inr(r),
    ensures fmul(h, fmul(fmul(1, x), r)) == fmul(fmul(h, x), fmul(1, r))
{
    lemma_mul_comm(1, x); lemma_mul_one(x);
    lemma_mul_comm(1, r); lemma_mul_one(r);
    lemma_mul_assoc(h, x, r);
}
pub proof fn lemma_sub_self(a: int)
    requires inr(a),
    ensures fsub(a, a) == 0
{
    broadcast use lemma_add_neg;
}

/// a signature under another scheme, the identity signature, or an identity U yields nothing
pub fn c13_wrong_scheme_or_identity_yields_nothing(ct: &TimeCryptCiphertext, sig: &Signature)
    requires sig_scheme(*sig) != ct.scheme || sig_point(*sig).dl() == 0 || ct.u.dl() == 0,
{
    let m = ct.decrypt(sig);
    assert(!m.is_some_spec());
}

/// whatever is returned is authenticated: Some(m') only if U == HashToScalar(alpha' || SHA-256(m')) * G
/// for the alpha' and m' the ciphertext unmasks to — so a signature over another identifier or by
/// another key (another K, hence another alpha'), or any change to U, V or the authenticated prefix of
/// W, yields nothing under X-RO; padding bytes beyond the length prefix do not enter m' at all
pub fn c13_output_is_authenticated(ct: &TimeCryptCiphertext, sig: &Signature)
    requires sig_scheme(*sig) == ct.scheme,
{
    let m = ct.decrypt(sig);
    proof { broadcast use lemma_pair_sum_len1; }
    let ghost k = gt_of(pair_sum(seq![(sig_point(*sig), ct.u)]));
    let ghost alpha = tc_v(k, ct.v@);
    assert(m.is_some_spec() ==> tc_unframe(tc_w(alpha, ct.w@)) == Some(m.value()@)
        && pk_sub(pk_mul(pk_of(1), tc_r(alpha, m.value()@)), ct.u).dl() == 0);
}

/// a signature recombined from partial signatures over the identifier IS the whole-key signature
/// (same scheme, same group element), so it opens exactly what the whole-key signature opens
pub fn c13_recombined_signature_opens_like_the_whole_key_signature(ct: &TimeCryptCiphertext, sk: &SecretKey, shares: &[SignatureShare], Ghost(f): Ghost<Seq<SkShare>>, scheme: SignatureSchemes, id: &[u8])
    requires
        sk.0.val() != 0, scheme != SignatureSchemes::MessageAugmentation,
        f.len() == shares@.len(),
        forall|i: int| 0 <= i < f.len() ==> sshare_scheme(#[trigger] shares@[i]) == scheme && share_scalar(f[i].val()) is Some && sshare_raw(shares@[i]).id() == f[i].id()
            && sshare_raw(shares@[i]).val() == sig_enc(sig_mul(hp(id@, scheme_dst(scheme)), share_scalar(f[i].val())->Some_0)),   // SecretKeyShare::sign
        combined(f) == Some(sk.0),
{
    proof {
        assert(sig_shares_of(f, sshares_raw(shares@), hp(id@, scheme_dst(scheme))));
        lemma_combine_linear_sig(f, sshares_raw(shares@), hp(id@, scheme_dst(scheme)));
        assert(sshares_one_scheme(shares@));
    }
    let s = Signature::from_shares(shares);
    let whole = sk.sign(scheme, id);
    assert(s is Ok && whole is Ok && s->Ok_0 == whole->Ok_0);
}

/// xor with the same keystream is injective, byte by byte
pub proof fn lemma_xor_cancel_at(a: Seq<u8>, b: Seq<u8>, k: Seq<u8>, i: int)
    requires a.len() == k.len(), b.len() == k.len(), 0 <= i < k.len(), xor_seq(a, k)[i] == xor_seq(b, k)[i],
    ensures a[i] == b[i]
{
    let x = a[i]; let y = b[i]; let z = k[i];
    assert((x ^ z) == (y ^ z) ==> x == y) by(bit_vector);
}

/// the length prefix and the message are authenticated: if a ciphertext opens, then EVERY other
/// ciphertext with the same header (U, V, scheme) and payload length that also opens under that
/// signature agrees with it on all payload bytes covering the length prefix and the message.  Hence
/// changing any such byte of a ciphertext that opens yields nothing (never the same nor a different
/// message); only the padding behind them is unauthenticated.
/// X-INJ (explicit): the check scalar H2S(alpha || SHA-256(m)) differs for different messages.
pub fn c13_prefix_and_message_bytes_are_authenticated(c1: &TimeCryptCiphertext, c2: &TimeCryptCiphertext, sig: &Signature)
    requires
        sig_scheme(*sig) == c1.scheme, c1.scheme == c2.scheme, c1.u == c2.u, c1.v@ == c2.v@, c1.w@.len() == c2.w@.len(),
        forall|a: Seq<u8>, m1: Seq<u8>, m2: Seq<u8>| #[trigger] tc_r(a, m1) == #[trigger] tc_r(a, m2) ==> m1 == m2,     // X-INJ
{
    let o1 = c1.decrypt(sig);
    let o2 = c2.decrypt(sig);
    proof {
        broadcast use lemma_pair_sum_len1;
        let k = gt_of(pair_sum(seq![(sig_point(*sig), c1.u)]));
        let alpha = tc_v(k, c1.v@);
        let p1 = tc_w(alpha, c1.w@);
        let p2 = tc_w(alpha, c2.w@);
        if o1.is_some_spec() && o2.is_some_spec() {
            let m1 = o1.value()@; let m2 = o2.value()@;
            // both check scalars give U, so they are equal; X-INJ: the messages are equal
            let r1 = tc_r(alpha, m1); let r2 = tc_r(alpha, m2);
            assert(pk_sub(pk_mul(pk_of(1), r1), c1.u).dl() == 0 && pk_sub(pk_mul(pk_of(1), r2), c1.u).dl() == 0);
            lemma_mul_comm(1, r1.val()); lemma_mul_one(r1.val()); lemma_mul_comm(1, r2.val()); lemma_mul_one(r2.val());
            lemma_sub_zero_iff(r1.val(), c1.u.dl()); lemma_sub_zero_iff(r2.val(), c1.u.dl());
            assert(r1 == r2);
            assert(m1 == m2);
            // canonical prefixes of the same length: same prefix bytes, same offset
            assert(leb_peek(p1) is Some && leb_peek(p2) is Some);
            let k1 = leb_peek(p1)->Some_0; let k2 = leb_peek(p2)->Some_0;
            let n = m1.len();
            assert(leb_decode(p1) as usize == n && leb_decode(p2) as usize == n);
            assert(p1.subrange(0, k1 as int) == leb(n as nat) && p2.subrange(0, k2 as int) == leb(n as nat));
            assert(k1 == k2);
            let cover = k1 + n;
            assert forall|i: int| 0 <= i < cover implies c1.w@[i] == c2.w@[i] by {
                if i < k1 {
                    assert(p1[i] == p1.subrange(0, k1 as int)[i] && p2[i] == p2.subrange(0, k2 as int)[i]);
                } else {
                    assert(p1[i] == p1.subrange(k1 as int, cover as int)[i - k1] && p2[i] == p2.subrange(k2 as int, cover as int)[i - k2]);
                }
                lemma_xor_cancel_at(c1.w@, c2.w@, shake128(alpha, c1.w@.len()), i);
            }
        }
    }
    assert(o1.is_some_spec() && o2.is_some_spec() ==> {
        let k = gt_of(pair_sum(seq![(sig_point(*sig), c1.u)]));
        let p1 = tc_w(tc_v(k, c1.v@), c1.w@);
        let cover = leb_peek(p1)->Some_0 + o1.value()@.len();
        forall|i: int| 0 <= i < cover ==> c1.w@[i] == c2.w@[i]
    });
}

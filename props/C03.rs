// ---------------------------------------------------------------------------------------------
// C03 (generic unit) — every choice blsful makes on top of the primitives matches the IETF draft:
// which message is hashed under which ciphersuite tag, the key prefix of the augmentation scheme,
// the proof-of-possession input, the KeyGen salt, the compressed encoding of keys.
// (The tags themselves, the expander and the HKDF glue are checked in the implementor unit.)
// ---------------------------------------------------------------------------------------------
pub open spec fn ietf_keygen_salt() -> Seq<u8> {
    seq![66u8, 76u8, 83u8, 45u8, 83u8, 73u8, 71u8, 45u8, 75u8, 69u8, 89u8, 71u8, 69u8, 78u8, 45u8, 83u8, 65u8, 76u8, 84u8, 45u8] // "BLS-SIG-KEYGEN-SALT-"
}
/// draft section 2.6-2.8, 3.1-3.3: Sign = CoreSign on (m | PK || m | m) under (NUL | AUG | POP) tag
pub open spec fn ietf_sign(s: SignatureSchemes, x: Scalar, m: Seq<u8>) -> Option<Sig> {
    if x.val() == 0 { None } else {
        match s {
            SignatureSchemes::Basic => Some(sig_mul(hp(m, DST_BASIC()), x)),
            SignatureSchemes::MessageAugmentation => Some(sig_mul(hp(pk_enc(pk_mul(pk_of(1), x)) + m, DST_AUG()), x)),
            SignatureSchemes::ProofOfPossession => Some(sig_mul(hp(m, DST_POP_SIG()), x)),
        }
    }
}
pub fn c03_scheme_glue(sk: &SecretKey, scheme: SignatureSchemes, msg: &[u8])
{
    let r = sk.sign(scheme, msg);
    assert(match ietf_sign(scheme, sk.0, msg@) {
        Some(p) => r is Ok && sig_point(r->Ok_0) == p && sig_scheme(r->Ok_0) == scheme,
        None => r is Err,
    });
    // SkToPk and the compressed encoding of the key
    let pk = sk.public_key();
    assert(pk.0 == pk_mul(pk_of(1), sk.0));
    let bytes = Vec::from(&pk);
    assert(bytes@ == pk_enc(pk.0));
    // PopProve hashes the encoded public key under the POP tag
    let pop = BlsSignaturePop__pop_prove(&sk.0);
    assert(sk.0.val() != 0 ==> pop is Ok && pop->Ok_0 == sig_mul(hp(pk_enc(pk.0), DST_POP_PROOF()), sk.0));
    // ... and so does the public wrapper
    let pop2 = sk.proof_of_possession();
    assert(sk.0.val() != 0 ==> pop2 is Ok && pop2->Ok_0.0 == sig_mul(hp(pk_enc(pk.0), DST_POP_PROOF()), sk.0));
}
pub fn c03_keygen_salt(seed: &[u8])
{
    let sk = SecretKey::from_hash(seed);
    assert(KEYGEN_SALT_spec() =~= ietf_keygen_salt());
    assert(sk.0 == hs(seed@, ietf_keygen_salt()));
    // every seed-derived entry point is the SAME construction: (message = seed, salt = KeyGen salt)
    let sk2 = BlsSignature::secret_key_from_hash(seed);
    assert(sk2.0 == sk.0);
    let e1 = SecretKeyEnum::from_hash(Bls12381::G1, seed);
    let e2 = SecretKeyEnum::from_hash(Bls12381::G2, seed);
    assert(ske_scalar(e1) == sk.0 && ske_scalar(e2) == sk.0 && ske_curve(e1) == Bls12381::G1 && ske_curve(e2) == Bls12381::G2);
}
/// keys drawn from a generator: 32 drawn bytes as the seed of the same construction
pub fn c03_keygen_from_rng(r1: ChaCha20Rng, r2: ChaCha20Rng, r3: ChaCha20Rng)
{
    let ghost s1 = r1.st(); let ghost s2 = r2.st(); let ghost s3 = r3.st();
    let a = SecretKey::random(r1);
    let b = BlsSignature::random_secret_key(r2);
    let c = SecretKeyEnum::random(Bls12381::G2, r3);
    assert(a.0 == hs(draw_bytes(s1, 32), ietf_keygen_salt()));
    assert(b.0 == hs(draw_bytes(s2, 32), ietf_keygen_salt()));
    assert(ske_scalar(c) == hs(draw_bytes(s3, 32), ietf_keygen_salt()) && ske_curve(c) == Bls12381::G2);
}

// ----- aggregates -------------------------------------------------------------------------------
/// the aggregate of a list of signatures is their sum (the draft's Aggregate), whatever the list
pub fn c03_aggregate_is_the_sum(sigs: &[Signature])
    requires sigs@.len() >= 2, all_same_scheme(sigs@),
{
    let a = AggregateSignature::from_signatures(sigs);
    assert(a is Ok);
    assert(agg_point(a->Ok_0).dl() == accumulated(sigs@));
    assert(agg_scheme(a->Ok_0) == sig_scheme(sigs@[0]));
}

/// the library accepts an aggregate against a (key, message) list exactly when the draft's
/// AggregateVerify does (KeyValidate on every key, the Basic scheme's distinct-message rule,
/// CoreAggregateVerify over `m`, `pk || m`, `m` under the NUL_/AUG_/POP_ tag) — so a list in which
/// a (key, message) pair occurs twice is paired twice under AUG and POP, as the draft prescribes
pub fn c03_aggregate_verify_is_the_draft_procedure(agg: &AggregateSignature, data: &[(PublicKey, &[u8])])
    requires agg_point(*agg).dl() != 0,
{
    let v = agg.verify(data);
    proof {
        let l = data_pairs(data@);
        let sig = agg_point(*agg);
        lemma_agg_eq_iff(l, sig, DST_BASIC());
        lemma_agg_eq_iff(l, sig, DST_POP_SIG());
        lemma_aug_eq_iff(l, sig, DST_AUG());
        lemma_distinct_prefix_iff(l, l.len() as int);
    }
    assert(v is Ok <==> ietf_aggregate_verify(agg_scheme(*agg), data_pairs(data@), agg_point(*agg)));
}

// ---------------------------------------------------------------------------------------------
// C02 (implementor unit) — the reference decision of C02 is the IETF CoreVerify under the IETF
// ciphersuite tags: the tags each implementor hashes under must be those strings (typed from the
// draft, not copied from the code), otherwise library and reference disagree on some tuple.
// ---------------------------------------------------------------------------------------------
pub open spec fn ietf_Bls12381G1Impl__BlsSignatureBasic__DST() -> Seq<u8> { seq![66u8, 76u8, 83u8, 95u8, 83u8, 73u8, 71u8, 95u8, 66u8, 76u8, 83u8, 49u8, 50u8, 51u8, 56u8, 49u8, 71u8, 49u8, 95u8, 88u8, 77u8, 68u8, 58u8, 83u8, 72u8, 65u8, 45u8, 50u8, 53u8, 54u8, 95u8, 83u8, 83u8, 87u8, 85u8, 95u8, 82u8, 79u8, 95u8, 78u8, 85u8, 76u8, 95u8] } // "BLS_SIG_BLS12381G1_XMD:SHA-256_SSWU_RO_NUL_"
pub open spec fn ietf_Bls12381G1Impl__BlsSignatureMessageAugmentation__DST() -> Seq<u8> { seq![66u8, 76u8, 83u8, 95u8, 83u8, 73u8, 71u8, 95u8, 66u8, 76u8, 83u8, 49u8, 50u8, 51u8, 56u8, 49u8, 71u8, 49u8, 95u8, 88u8, 77u8, 68u8, 58u8, 83u8, 72u8, 65u8, 45u8, 50u8, 53u8, 54u8, 95u8, 83u8, 83u8, 87u8, 85u8, 95u8, 82u8, 79u8, 95u8, 65u8, 85u8, 71u8, 95u8] } // "BLS_SIG_BLS12381G1_XMD:SHA-256_SSWU_RO_AUG_"
pub open spec fn ietf_Bls12381G1Impl__BlsSignaturePop__SIG_DST() -> Seq<u8> { seq![66u8, 76u8, 83u8, 95u8, 83u8, 73u8, 71u8, 95u8, 66u8, 76u8, 83u8, 49u8, 50u8, 51u8, 56u8, 49u8, 71u8, 49u8, 95u8, 88u8, 77u8, 68u8, 58u8, 83u8, 72u8, 65u8, 45u8, 50u8, 53u8, 54u8, 95u8, 83u8, 83u8, 87u8, 85u8, 95u8, 82u8, 79u8, 95u8, 80u8, 79u8, 80u8, 95u8] } // "BLS_SIG_BLS12381G1_XMD:SHA-256_SSWU_RO_POP_"
pub open spec fn ietf_Bls12381G1Impl__BlsSignaturePop__POP_DST() -> Seq<u8> { seq![66u8, 76u8, 83u8, 95u8, 80u8, 79u8, 80u8, 95u8, 66u8, 76u8, 83u8, 49u8, 50u8, 51u8, 56u8, 49u8, 71u8, 49u8, 95u8, 88u8, 77u8, 68u8, 58u8, 83u8, 72u8, 65u8, 45u8, 50u8, 53u8, 54u8, 95u8, 83u8, 83u8, 87u8, 85u8, 95u8, 82u8, 79u8, 95u8, 80u8, 79u8, 80u8, 95u8] } // "BLS_POP_BLS12381G1_XMD:SHA-256_SSWU_RO_POP_"
pub open spec fn ietf_Bls12381G2Impl__BlsSignatureBasic__DST() -> Seq<u8> { seq![66u8, 76u8, 83u8, 95u8, 83u8, 73u8, 71u8, 95u8, 66u8, 76u8, 83u8, 49u8, 50u8, 51u8, 56u8, 49u8, 71u8, 50u8, 95u8, 88u8, 77u8, 68u8, 58u8, 83u8, 72u8, 65u8, 45u8, 50u8, 53u8, 54u8, 95u8, 83u8, 83u8, 87u8, 85u8, 95u8, 82u8, 79u8, 95u8, 78u8, 85u8, 76u8, 95u8] } // "BLS_SIG_BLS12381G2_XMD:SHA-256_SSWU_RO_NUL_"
pub open spec fn ietf_Bls12381G2Impl__BlsSignatureMessageAugmentation__DST() -> Seq<u8> { seq![66u8, 76u8, 83u8, 95u8, 83u8, 73u8, 71u8, 95u8, 66u8, 76u8, 83u8, 49u8, 50u8, 51u8, 56u8, 49u8, 71u8, 50u8, 95u8, 88u8, 77u8, 68u8, 58u8, 83u8, 72u8, 65u8, 45u8, 50u8, 53u8, 54u8, 95u8, 83u8, 83u8, 87u8, 85u8, 95u8, 82u8, 79u8, 95u8, 65u8, 85u8, 71u8, 95u8] } // "BLS_SIG_BLS12381G2_XMD:SHA-256_SSWU_RO_AUG_"
pub open spec fn ietf_Bls12381G2Impl__BlsSignaturePop__SIG_DST() -> Seq<u8> { seq![66u8, 76u8, 83u8, 95u8, 83u8, 73u8, 71u8, 95u8, 66u8, 76u8, 83u8, 49u8, 50u8, 51u8, 56u8, 49u8, 71u8, 50u8, 95u8, 88u8, 77u8, 68u8, 58u8, 83u8, 72u8, 65u8, 45u8, 50u8, 53u8, 54u8, 95u8, 83u8, 83u8, 87u8, 85u8, 95u8, 82u8, 79u8, 95u8, 80u8, 79u8, 80u8, 95u8] } // "BLS_SIG_BLS12381G2_XMD:SHA-256_SSWU_RO_POP_"
pub open spec fn ietf_Bls12381G2Impl__BlsSignaturePop__POP_DST() -> Seq<u8> { seq![66u8, 76u8, 83u8, 95u8, 80u8, 79u8, 80u8, 95u8, 66u8, 76u8, 83u8, 49u8, 50u8, 51u8, 56u8, 49u8, 71u8, 50u8, 95u8, 88u8, 77u8, 68u8, 58u8, 83u8, 72u8, 65u8, 45u8, 50u8, 53u8, 54u8, 95u8, 83u8, 83u8, 87u8, 85u8, 95u8, 82u8, 79u8, 95u8, 80u8, 79u8, 80u8, 95u8] } // "BLS_POP_BLS12381G2_XMD:SHA-256_SSWU_RO_POP_"
pub open spec fn ietf_KEYGEN_SALT() -> Seq<u8> { seq![66u8, 76u8, 83u8, 45u8, 83u8, 73u8, 71u8, 45u8, 75u8, 69u8, 89u8, 71u8, 69u8, 78u8, 45u8, 83u8, 65u8, 76u8, 84u8, 45u8] } // "BLS-SIG-KEYGEN-SALT-"

pub proof fn c02_tags_equal_the_ietf_strings()
    ensures
        Bls12381G1Impl__BlsSignatureBasic__DST_spec() == ietf_Bls12381G1Impl__BlsSignatureBasic__DST(),
        Bls12381G1Impl__BlsSignatureMessageAugmentation__DST_spec() == ietf_Bls12381G1Impl__BlsSignatureMessageAugmentation__DST(),
        Bls12381G1Impl__BlsSignaturePop__SIG_DST_spec() == ietf_Bls12381G1Impl__BlsSignaturePop__SIG_DST(),
        Bls12381G1Impl__BlsSignaturePop__POP_DST_spec() == ietf_Bls12381G1Impl__BlsSignaturePop__POP_DST(),
        Bls12381G2Impl__BlsSignatureBasic__DST_spec() == ietf_Bls12381G2Impl__BlsSignatureBasic__DST(),
        Bls12381G2Impl__BlsSignatureMessageAugmentation__DST_spec() == ietf_Bls12381G2Impl__BlsSignatureMessageAugmentation__DST(),
        Bls12381G2Impl__BlsSignaturePop__SIG_DST_spec() == ietf_Bls12381G2Impl__BlsSignaturePop__SIG_DST(),
        Bls12381G2Impl__BlsSignaturePop__POP_DST_spec() == ietf_Bls12381G2Impl__BlsSignaturePop__POP_DST(),
        KEYGEN_SALT_spec() == ietf_KEYGEN_SALT(),
{
    assert(Bls12381G1Impl__BlsSignatureBasic__DST_spec() =~= ietf_Bls12381G1Impl__BlsSignatureBasic__DST());
    assert(Bls12381G1Impl__BlsSignatureMessageAugmentation__DST_spec() =~= ietf_Bls12381G1Impl__BlsSignatureMessageAugmentation__DST());
    assert(Bls12381G1Impl__BlsSignaturePop__SIG_DST_spec() =~= ietf_Bls12381G1Impl__BlsSignaturePop__SIG_DST());
    assert(Bls12381G1Impl__BlsSignaturePop__POP_DST_spec() =~= ietf_Bls12381G1Impl__BlsSignaturePop__POP_DST());
    assert(Bls12381G2Impl__BlsSignatureBasic__DST_spec() =~= ietf_Bls12381G2Impl__BlsSignatureBasic__DST());
    assert(Bls12381G2Impl__BlsSignatureMessageAugmentation__DST_spec() =~= ietf_Bls12381G2Impl__BlsSignatureMessageAugmentation__DST());
    assert(Bls12381G2Impl__BlsSignaturePop__SIG_DST_spec() =~= ietf_Bls12381G2Impl__BlsSignaturePop__SIG_DST());
    assert(Bls12381G2Impl__BlsSignaturePop__POP_DST_spec() =~= ietf_Bls12381G2Impl__BlsSignaturePop__POP_DST());
    assert(KEYGEN_SALT_spec() =~= ietf_KEYGEN_SALT());
}


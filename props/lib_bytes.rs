// props/lib_bytes.rs — PROVED lemmas about byte sequences
pub proof fn lemma_reverse_reverse(s: Seq<u8>)
    ensures s.reverse().reverse() =~= s
{}
pub proof fn lemma_all_zero_reverse(s: Seq<u8>)
    ensures all_zero(s.reverse()) <==> all_zero(s)
{
    if all_zero(s.reverse()) {
        assert forall|i: int| 0 <= i < s.len() implies #[trigger] s[i] == 0 by { assert(s.reverse()[s.len() - 1 - i] == s[i]); }
    }
    if all_zero(s) {
        assert forall|i: int| 0 <= i < s.reverse().len() implies #[trigger] s.reverse()[i] == 0 by { assert(s.reverse()[i] == s[s.len() - 1 - i]); }
    }
}

// ---------------------------------------------------------------------------------------------
// C04 — identity points and the zero key are never accepted or used.
// Literal reading, no cryptographic hypothesis: each harness calls the REAL entry point with an
// otherwise arbitrary (symbolic) remainder.
// ---------------------------------------------------------------------------------------------
pub fn c04_signature_verify_rejects_identity(sig: &Signature, pk: &PublicKey, msg: &[u8])
    requires pk.0.dl() == 0 || sig_point(*sig).dl() == 0,
{
    let v = sig.verify(pk, msg);
    assert(v is Err);
}

pub fn c04_pop_verify_rejects_identity(pop: &ProofOfPossession, pk: PublicKey)
    requires pk.0.dl() == 0 || pop.0.dl() == 0,
{
    let v = pop.verify(pk);
    assert(v is Err);
}

pub fn c04_zero_key_cannot_sign(sk: &SecretKey, scheme: SignatureSchemes, msg: &[u8])
    requires sk.0.val() == 0,
{
    let r = sk.sign(scheme, msg);
    assert(r is Err);
    let p = sk.proof_of_possession();
    assert(p is Err);
}

pub fn c04_trait_level_entry_points(pk: Pk, sig: Sig, msg: &[u8], dst: &[u8], zero: &Scalar)
    requires pk.dl() == 0 || sig.dl() == 0, zero.val() == 0,
{
    let v1 = BlsSignatureCore__core_verify(pk, sig, msg, dst);
    let v2 = BlsSignatureBasic__verify(pk, sig, msg);
    let v3 = BlsSignatureMessageAugmentation__verify(pk, sig, msg);
    let v4 = BlsSignaturePop__verify(pk, sig, msg);
    let v5 = BlsSignaturePop__pop_verify(pk, sig);
    assert(v1 is Err && v2 is Err && v3 is Err && v4 is Err && v5 is Err);
    let s1 = BlsSignatureCore__core_sign(zero, msg, dst);
    let s2 = BlsSignatureBasic__sign(zero, msg);
    let s3 = BlsSignatureMessageAugmentation__sign(zero, msg);
    let s4 = BlsSignaturePop__sign(zero, msg);
    let s5 = BlsSignaturePop__pop_prove(zero);
    assert(s1 is Err && s2 is Err && s3 is Err && s4 is Err && s5 is Err);
}

/// proofs of knowledge: identity commitment / response / key and the zero challenge are rejected,
/// and the prover refuses identity or zero inputs
pub fn c04_pok_rejects_identity_and_zero(p: &ProofOfKnowledge, pk: PublicKey, msg: &[u8], y: ProofCommitmentChallenge)
    requires pok_u(*p).dl() == 0 || pok_v(*p).dl() == 0 || pk.0.dl() == 0 || y.0.val() == 0,
{
    let v = p.verify(pk, msg, y);
    assert(v is Err);
}
pub fn c04_pok_timestamp_rejects_identity(p: &ProofOfKnowledgeTimestamp, pk: PublicKey, msg: &[u8], timeout: Option<u64>)
    requires pok_u(p.proof).dl() == 0 || pok_v(p.proof).dl() == 0 || pk.0.dl() == 0,
{
    let v = p.verify(pk, msg, timeout);
    assert(v is Err);
}
pub fn c04_pok_prover_refuses(c: ProofCommitment, x: ProofCommitmentSecret, y: ProofCommitmentChallenge, sig: Signature)
    requires pc_point(c).dl() == 0 || sig_point(sig).dl() == 0 || x.0.val() == 0 || y.0.val() == 0,
{
    let r = c.finalize(x, y, sig);
    assert(r is Err);
}

/// the zero scalar cannot be imported as a secret key from bytes (any of the importers)
pub fn c04_zero_key_cannot_be_imported(zero32: &[u8; 32], bytes: &[u8])
    requires all_zero(zero32@), all_zero(bytes@),
{
    proof { lemma_all_zero_reverse(zero32@); }
    let a = SecretKey::from_be_bytes(zero32);
    let b = SecretKey::from_le_bytes(zero32);
    let c = SecretKey::try_from(bytes);
    assert(!a.is_some_spec() && !b.is_some_spec());
    proof { lemma_all_zero_reverse(bytes@); }
    assert(c is Err);
}

/// signcryption: a ciphertext whose U or W is the identity is invalid and decrypts to nothing
pub fn c04_signcrypt_identity_is_invalid(ct: &SignCryptCiphertext, sk: &SecretKey, dk: &SignCryptDecryptionKey)
    requires ct.u.dl() == 0 || ct.w.dl() == 0,
{
    let v = ct.is_valid();
    let m = ct.decrypt(sk);
    let m2 = dk.decrypt(ct);
    assert(!v@ && !m.is_some_spec() && !m2.is_some_spec());
}

// ---------------------------------------------------------------------------------------------
// C02 — verification accepts exactly the one valid signature and nothing else.
// `ietf_core_verify` is the reference decision, written from draft-irtf-cfrg-bls-signature
// (KeyValidate + the pairing equation e(pk, H(m)) == e(G, sig)) in discrete-log form; it never
// looks at the code.
// ---------------------------------------------------------------------------------------------
pub open spec fn ietf_core_verify(pk: Pk, sig: Sig, m: Seq<u8>, d: Seq<u8>) -> bool {
    pk.dl() != 0 && fmul(hp(m, d).dl(), pk.dl()) == sig.dl()
}

/// the library's decision equals the reference decision on EVERY tuple (X-NONID)
pub fn c02_decision_equals_reference(sig: &Signature, pk: &PublicKey, msg: &[u8])
    requires
        hp(scheme_msg(sig_scheme(*sig), pk.0, msg@), scheme_dst(sig_scheme(*sig))).dl() != 0, // X-NONID
{
    let v = sig.verify(pk, msg);
    proof {
        let m = scheme_msg(sig_scheme(*sig), pk.0, msg@);
        let d = scheme_dst(sig_scheme(*sig));
        lemma_cv_eq_iff(pk.0, sig_point(*sig), m, d);
        if ietf_core_verify(pk.0, sig_point(*sig), m, d) {
            lemma_honest_nonzero(hp(m, d).dl(), pk.0.dl());
        }
    }
    assert(v is Ok <==> ietf_core_verify(pk.0, sig_point(*sig), scheme_msg(sig_scheme(*sig), pk.0, msg@), scheme_dst(sig_scheme(*sig))));
}

/// honest signing produces the accepted element, for every scheme
pub fn c02_honest_is_accepted(sk: &SecretKey, scheme: SignatureSchemes, msg: &[u8])
    requires
        sk.0.val() != 0,
{
    let r1 = sk.sign(scheme, msg);
    let pk = sk.public_key();
    proof {
        broadcast use ring;
        let pkv = pk_mul(pk_of(1), sk.0);
        assert(fmul(1, sk.0.val()) == fmul(sk.0.val(), 1));
    }
    assert(r1 is Ok);
    assert(sig_scheme(r1->Ok_0) == scheme);
    assert(ietf_core_verify(pk.0, sig_point(r1->Ok_0), scheme_msg(scheme, pk.0, msg@), scheme_dst(scheme)));
}

/// exactly one group element verifies
pub proof fn c02_unique(pk: Pk, s1: Sig, s2: Sig, m: Seq<u8>, d: Seq<u8>)
    requires ietf_core_verify(pk, s1, m, d), ietf_core_verify(pk, s2, m, d),
    ensures s1 == s2
{}

/// -sig, sig + k*G (k != 0) and k*sig (k != 1) are other elements, hence rejected
pub proof fn c02_perturbed_signature_rejected(pk: Pk, s: Sig, m: Seq<u8>, d: Seq<u8>, k: Scalar)
    requires ietf_core_verify(pk, s, m, d), hp(m, d).dl() != 0,
    ensures
        !ietf_core_verify(pk, sig_neg(s), m, d),
        k.val() != 0 ==> !ietf_core_verify(pk, sig_add(s, sig_mul(sig_of(1), k)), m, d),
        k.val() != 1 ==> !ietf_core_verify(pk, sig_mul(s, k), m, d),
{
    broadcast use ring;
    lemma_honest_nonzero(hp(m, d).dl(), pk.dl());
    assert(s.dl() != 0);
    if fneg(s.dl()) == s.dl() { lemma_neg_self(s.dl()); }
    if k.val() != 0 {
        // s + k == s  ==>  k == 0
        assert(fmul(1, k.val()) == fmul(k.val(), 1));
        if fadd(s.dl(), k.val()) == s.dl() {
            assert(fadd(s.dl(), k.val()) == fadd(s.dl(), 0));
            assert(fadd(k.val(), s.dl()) == fadd(0, s.dl()));
            lemma_add_cancel(k.val(), 0, s.dl());
        }
    }
    if k.val() != 1 {
        // s * k == s * 1  ==>  k == 1
        if fmul(s.dl(), k.val()) == s.dl() {
            assert(fmul(k.val(), s.dl()) == fmul(1, s.dl())) by {
                assert(fmul(1, s.dl()) == fmul(s.dl(), 1));
            }
            axiom_r_gt_1();
            lemma_mul_cancel(k.val(), 1, s.dl());
        }
    }
}

/// another message (X-INJ: its hash point differs) or another scheme label (X-DSEP) is rejected
pub proof fn c02_other_message_or_scheme_rejected(pk: Pk, s: Sig, m: Seq<u8>, d: Seq<u8>, m2: Seq<u8>, d2: Seq<u8>)
    requires ietf_core_verify(pk, s, m, d), hp(m2, d2) != hp(m, d), // X-INJ / X-DSEP
    ensures !ietf_core_verify(pk, s, m2, d2)
{
    if fmul(hp(m2, d2).dl(), pk.dl()) == fmul(hp(m, d).dl(), pk.dl()) {
        lemma_mul_cancel(hp(m2, d2).dl(), hp(m, d).dl(), pk.dl());
    }
}

/// any other public key is rejected (needs only H(m) != O)
pub proof fn c02_other_key_rejected(pk: Pk, pk2: Pk, s: Sig, m: Seq<u8>, d: Seq<u8>)
    requires ietf_core_verify(pk, s, m, d), pk2 != pk, hp(m, d).dl() != 0,
    ensures !ietf_core_verify(pk2, s, m, d)
{
    broadcast use lemma_mul_comm;
    if fmul(hp(m, d).dl(), pk2.dl()) == fmul(hp(m, d).dl(), pk.dl()) {
        lemma_mul_cancel(pk2.dl(), pk.dl(), hp(m, d).dl());
    }
}

/// the contract is not over-strict: algebraically related VALID tuples are accepted
pub proof fn c02_valid_related_tuple_accepted(pk1: Pk, pk2: Pk, s1: Sig, s2: Sig, m: Seq<u8>, d: Seq<u8>)
    requires ietf_core_verify(pk1, s1, m, d), ietf_core_verify(pk2, s2, m, d), pk_add(pk1, pk2).dl() != 0,
    ensures ietf_core_verify(pk_add(pk1, pk2), sig_add(s1, s2), m, d)
{
    lemma_distrib(hp(m, d).dl(), pk1.dl(), pk2.dl());
    lemma_range_add(pk1.dl(), pk2.dl()); lemma_range_add(s1.dl(), s2.dl());
}

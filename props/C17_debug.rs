// C17, checked-build view (debug assertions are obligations, E8): the payload unmasking path.
pub fn c17d_signcrypt_decrypt_total(v: &[u8], ua: Pk, valid: Choice)
{
    let _ = BlsSignCrypt__decrypt(v, ua, valid);
}

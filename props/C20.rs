// ---------------------------------------------------------------------------------------------
// C20 — every randomized operation draws fresh randomness (PROVENANCE form).
// What a contract can carry: every ephemeral value is a function of bytes drawn, in this call,
// from a generator obtained from `get_crypto_rng()` = `ChaCha20Rng::from_entropy()` in this call
// (`fresh_rng(g)`: entropy-seeded, never drawn from before), or — for the `*_with_rng`/`random(rng)`
// entry points — from the caller's generator state.  A constant, a value derived from the inputs,
// `from_seed`, a cached generator or a draw used twice all fail these clauses.
// That two entropy seeds differ (across calls, threads, processes) is the assumption A-RNG.
// ---------------------------------------------------------------------------------------------
pub fn c20_key_generation(rng: ChaCha20Rng)
{
    let ghost s0 = rng.st();
    let k1 = SecretKey::new();
    assert(exists|g: ChaCha20Rng| #[trigger] fresh_rng(g) && k1.0 == hs(draw_bytes(g.state(), 32), KEYGEN_SALT_spec()));
    let k2 = SecretKey::random(rng);
    assert(k2.0 == hs(draw_bytes(s0, 32), KEYGEN_SALT_spec()));
    let c = ProofCommitmentChallenge::new();
    assert(exists|g: ChaCha20Rng| #[trigger] fresh_rng(g) && c.0 == hs(draw_bytes(g.state(), 32), KEYGEN_SALT_spec()));
    // the facade and the curve-tagged wrapper generate keys and challenges the same way
    let k3 = BlsSignature::new_secret_key();
    assert(exists|g: ChaCha20Rng| #[trigger] fresh_rng(g) && k3.0 == hs(draw_bytes(g.state(), 32), KEYGEN_SALT_spec()));
    let c2 = BlsSignature::new_proof_challenge();
    assert(exists|g: ChaCha20Rng| #[trigger] fresh_rng(g) && c2.0 == hs(draw_bytes(g.state(), 32), KEYGEN_SALT_spec()));
    let k4 = SecretKeyEnum::new(Bls12381::G1);
    assert(exists|g: ChaCha20Rng| #[trigger] fresh_rng(g) && ske_scalar(k4) == hs(draw_bytes(g.state(), 32), KEYGEN_SALT_spec()));
}

pub fn c20_signcryption_and_time_lock(pk: &PublicKey, scheme: SignatureSchemes, msg: &[u8], id: &[u8])
    requires pk.0.dl() != 0,
{
    // the ephemeral scalar r (hence U, the mask and W) comes from a fresh generator
    let ct = pk.sign_crypt(scheme, msg);
    assert(exists|g: ChaCha20Rng| #[trigger] fresh_rng(g) && ct.u == pk_mul(pk_of(1), hs(draw_bytes(g.state(), 32), BlsSignCrypt__seal__SALT_spec())));
    // alpha (hence r, U, V, W) comes from a fresh generator
    let tc = pk.encrypt_time_lock(scheme, msg, id);
    assert(tc is Ok && exists|g: ChaCha20Rng| #[trigger] fresh_rng(g) && tc->Ok_0.u == pk_mul(pk_of(1), tc_r(scalar_le(hs(draw_bytes(g.state(), 32), time_crypt__SALT_spec())), msg@)));
}

pub fn c20_proof_of_knowledge_commitment(msg: &[u8], sig: Signature)
{
    let r = ProofCommitment::generate(msg, sig);
    // the commitment secret x' is a draw from a fresh generator (re-drawn, again freshly, if zero)
    assert(exists|g: ChaCha20Rng| #[trigger] fresh_rng(g) && r->Ok_0.1.0 == draw_scalar(g.state()));
}

pub fn c20_elgamal_blinder(pk: &PublicKey, sk: &SecretKey)
{
    let ct = pk.encrypt_key_el_gamal(sk);
    // the blinder (hence c1 = b*G) is a draw from a fresh generator
    assert(ct is Ok ==> exists|g: ChaCha20Rng| #[trigger] fresh_rng(g) && ct->Ok_0.c1 == eg_c1(draw_scalar(g.state())));
    // with proof: the blinder is the first draw of a fresh generator and the commitment randomness
    // behind the blinder response is the NEXT draw (not the same one, not a constant)
    let p = pk.encrypt_key_el_gamal_with_proof(sk);
    assert(p is Ok ==> exists|g: ChaCha20Rng| #[trigger] fresh_rng(g) && p->Ok_0.ciphertext.c1 == eg_c1(draw_scalar(g.state()))
        && eg_resp(p->Ok_0.blinder_proof, draw_scalar(next_state(g.state())), p->Ok_0.challenge, draw_scalar(g.state())));
}

// props/lib_payload.rs — PROVED lemmas about payload masking and framing
pub proof fn lemma_xor_involution(a: Seq<u8>, k: Seq<u8>)
    requires a.len() == k.len(),
    ensures xor_seq(xor_seq(a, k), k) =~= a
{
    assert forall|i: int| 0 <= i < a.len() implies #[trigger] xor_seq(xor_seq(a, k), k)[i] == a[i] by {
        let x = a[i]; let y = k[i];
        assert((x ^ y) ^ y == x) by(bit_vector);
    }
}

/// unframing a frame gives the message back, for EVERY message length (also 0, and > 32)
pub proof fn lemma_unframe_frame(m: Seq<u8>)
    requires m.len() <= usize::MAX,
    ensures sc_unframe(sc_frame(m)) == Some(m),
        // ... and the prefix of a frame is the canonical encoding of the message length
        leb_peek(sc_frame(m)) == Some(leb(m.len()).len()), leb_decode(sc_frame(m)) == m.len(),
        sc_frame(m).subrange(0, leb(m.len()).len() as int) == leb(m.len()),
{
    let l = leb(m.len());
    let body = l + m;
    let f = sc_frame(m);
    let padn: nat = if body.len() >= 32 { 0 } else { (32 - body.len()) as nat };
    let pad = Seq::new(padn, |i: int| 0u8);
    assert(f =~= l + (m + pad));
    axiom_leb_round_trip(m.len(), m + pad);
    let k = l.len();
    assert(leb_peek(f) == Some(k));
    assert(f.subrange(0, k as int) =~= l);
    assert(leb_decode(f) == m.len());
    assert(f.subrange(k as int, (k + m.len()) as int) =~= m);
}


// ---------------------------------------------------------------------------------------------
// C11 — signcryption round-trips every message and rejects every altered ciphertext.
// ---------------------------------------------------------------------------------------------
/// the validity equation in discrete-log form:  dl(w) == h(enc(u)||v) * dl(u)
pub proof fn lemma_sc_valid_iff(u: Pk, v: Seq<u8>, w: Sig, d: Seq<u8>)
    ensures sc_valid(u, v, w, d) <==> (u.dl() != 0 && w.dl() != 0 && fmul(sc_w_point(u, v, d).dl(), u.dl()) == w.dl())
{
    broadcast use ring;
    lemma_pair_sum_2((w, pk_of(fneg(1))), (sc_w_point(u, v, d), u));
    assert(sc_pairs(u, v, w, d) =~= seq![(w, pk_of(fneg(1))), (sc_w_point(u, v, d), u)]);
    lemma_mul_neg(w.dl(), 1);
    let a = fmul(sc_w_point(u, v, d).dl(), u.dl());
    assert(fadd(fneg(w.dl()), a) == fadd(a, fneg(w.dl())));
    lemma_sub_zero_iff(a, w.dl());
}

/// for every key, scheme and message (any length): the ciphertext reports itself valid and
/// decrypts under the matching secret key — directly and through the hidden decryption key — to
/// exactly the original message
pub fn c11_round_trip(sk: &SecretKey, scheme: SignatureSchemes, msg: &[u8])
    requires sk.0.val() != 0,
{
    let pk = sk.public_key();
    let ct = pk.sign_crypt(scheme, msg);
    proof {
        broadcast use ring;
        let g = choose|g: ChaCha20Rng| #[trigger] ct_sealed_from(g, pk.0, msg@, ct);
        let r = hs(draw_bytes(g.state(), 32), BlsSignCrypt__seal__SALT_spec());
        let x = sk.0.val();
        // both sides mask with the same point  r*x*G
        assert(fmul(1, x) == fmul(x, 1));
        assert(fmul(1, r.val()) == fmul(r.val(), 1));
        assert(pk_mul(pk.0, r).dl() == pk_mul(ct.u, sk.0).dl());
        assert(pk_mul(pk.0, r) == pk_mul(ct.u, sk.0));
        let frame = sc_frame(msg@);
        let ks = shake128(pk_enc(pk_mul(pk.0, r)), frame.len());
        assert(ct.v@.len() == frame.len());
        lemma_xor_involution(frame, ks);
        assert(sc_mask(pk_mul(ct.u, sk.0), ct.v@) =~= frame);
        lemma_unframe_frame(msg@);
        lemma_sc_valid_iff(ct.u, ct.v@, ct.w, scheme_dst(scheme));
    }
    let valid = ct.is_valid();
    let hidden = sk.sign_decryption_key::<&[u8]>(&ct);
    let m1 = ct.decrypt(sk);
    let m2 = hidden.decrypt(&ct);
    // X-NONID: the point W is hashed to is not the identity
    assert(sc_w_point(ct.u, ct.v@, scheme_dst(scheme)).dl() != 0 ==> valid@ && m1.is_some_spec() && m1.value()@ == msg@ && m2.is_some_spec() && m2.value()@ == msg@) by {
        if sc_w_point(ct.u, ct.v@, scheme_dst(scheme)).dl() != 0 {
            let g = choose|g: ChaCha20Rng| #[trigger] ct_sealed_from(g, pk.0, msg@, ct);
            let r = hs(draw_bytes(g.state(), 32), BlsSignCrypt__seal__SALT_spec());
            lemma_honest_nonzero(sc_w_point(ct.u, ct.v@, scheme_dst(scheme)).dl(), r.val());
            broadcast use lemma_mul_comm, lemma_mul_one;
        }
    }
}

/// decryption is gated by validity, and validity pins W: for fixed (U, V, scheme) exactly one W
/// is valid — so any change to W, and (X-INJ/X-DSEP on the hash input enc(U)||V under the scheme's
/// tag) any change to U, V or the scheme label, makes the ciphertext report invalid and decrypt to
/// nothing
pub fn c11_altered_ciphertext_decrypts_to_nothing(ct: &SignCryptCiphertext, other: &SignCryptCiphertext, sk: &SecretKey)
    requires other.u == ct.u, other.v@ == ct.v@, other.scheme == ct.scheme, other.w != ct.w,
{
    let v1 = ct.is_valid();
    let v2 = other.is_valid();
    let m2 = other.decrypt(sk);
    proof {
        lemma_sc_valid_iff(ct.u, ct.v@, ct.w, scheme_dst(ct.scheme));
        lemma_sc_valid_iff(other.u, other.v@, other.w, scheme_dst(other.scheme));
    }
    assert(v1@ ==> !v2@ && !m2.is_some_spec());
}
pub fn c11_decrypt_is_gated(ct: &SignCryptCiphertext, sk: &SecretKey, dk: &SignCryptDecryptionKey)
{
    let v = ct.is_valid();
    let m = ct.decrypt(sk);
    let m2 = dk.decrypt(ct);
    assert(!v@ ==> !m.is_some_spec() && !m2.is_some_spec());
}

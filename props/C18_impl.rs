// ---------------------------------------------------------------------------------------------
// C18 (implementor unit) — the byte strings that enter blsful's own wire formats, PINNED.
// These literals were frozen from the pinned release (v2.5.7 at the task's commit) and do not move
// with the code: a salt, tag or KeyGen parameter changed consistently on the producing and the
// consuming side still differs from the pin.
// ---------------------------------------------------------------------------------------------
pub open spec fn pinned_Bls12381G1Impl__BlsSignatureBasic__DST() -> Seq<u8> { seq![66u8, 76u8, 83u8, 95u8, 83u8, 73u8, 71u8, 95u8, 66u8, 76u8, 83u8, 49u8, 50u8, 51u8, 56u8, 49u8, 71u8, 49u8, 95u8, 88u8, 77u8, 68u8, 58u8, 83u8, 72u8, 65u8, 45u8, 50u8, 53u8, 54u8, 95u8, 83u8, 83u8, 87u8, 85u8, 95u8, 82u8, 79u8, 95u8, 78u8, 85u8, 76u8, 95u8] } // BLS_SIG_BLS12381G1_XMD:SHA-256_SSWU_RO_NUL_  (src/impls/g1.rs:109)
pub open spec fn pinned_Bls12381G1Impl__BlsSignatureMessageAugmentation__DST() -> Seq<u8> { seq![66u8, 76u8, 83u8, 95u8, 83u8, 73u8, 71u8, 95u8, 66u8, 76u8, 83u8, 49u8, 50u8, 51u8, 56u8, 49u8, 71u8, 49u8, 95u8, 88u8, 77u8, 68u8, 58u8, 83u8, 72u8, 65u8, 45u8, 50u8, 53u8, 54u8, 95u8, 83u8, 83u8, 87u8, 85u8, 95u8, 82u8, 79u8, 95u8, 65u8, 85u8, 71u8, 95u8] } // BLS_SIG_BLS12381G1_XMD:SHA-256_SSWU_RO_AUG_  (src/impls/g1.rs:113)
pub open spec fn pinned_Bls12381G1Impl__BlsSignaturePop__SIG_DST() -> Seq<u8> { seq![66u8, 76u8, 83u8, 95u8, 83u8, 73u8, 71u8, 95u8, 66u8, 76u8, 83u8, 49u8, 50u8, 51u8, 56u8, 49u8, 71u8, 49u8, 95u8, 88u8, 77u8, 68u8, 58u8, 83u8, 72u8, 65u8, 45u8, 50u8, 53u8, 54u8, 95u8, 83u8, 83u8, 87u8, 85u8, 95u8, 82u8, 79u8, 95u8, 80u8, 79u8, 80u8, 95u8] } // BLS_SIG_BLS12381G1_XMD:SHA-256_SSWU_RO_POP_  (src/impls/g1.rs:117)
pub open spec fn pinned_Bls12381G1Impl__BlsSignaturePop__POP_DST() -> Seq<u8> { seq![66u8, 76u8, 83u8, 95u8, 80u8, 79u8, 80u8, 95u8, 66u8, 76u8, 83u8, 49u8, 50u8, 51u8, 56u8, 49u8, 71u8, 49u8, 95u8, 88u8, 77u8, 68u8, 58u8, 83u8, 72u8, 65u8, 45u8, 50u8, 53u8, 54u8, 95u8, 83u8, 83u8, 87u8, 85u8, 95u8, 82u8, 79u8, 95u8, 80u8, 79u8, 80u8, 95u8] } // BLS_POP_BLS12381G1_XMD:SHA-256_SSWU_RO_POP_  (src/impls/g1.rs:118)
pub open spec fn pinned_Bls12381G1Impl__BlsElGamal__ENC_DST() -> Seq<u8> { seq![66u8, 76u8, 83u8, 95u8, 69u8, 76u8, 71u8, 65u8, 77u8, 65u8, 76u8, 95u8, 66u8, 76u8, 83u8, 49u8, 50u8, 51u8, 56u8, 49u8, 71u8, 50u8, 95u8, 88u8, 77u8, 68u8, 58u8, 83u8, 72u8, 65u8, 45u8, 50u8, 53u8, 54u8, 95u8, 83u8, 83u8, 87u8, 85u8, 95u8, 82u8, 79u8, 95u8, 78u8, 85u8, 76u8, 95u8] } // BLS_ELGAMAL_BLS12381G2_XMD:SHA-256_SSWU_RO_NUL_  (src/impls/g1.rs:128)
pub open spec fn pinned_Bls12381G2Impl__BlsSignatureBasic__DST() -> Seq<u8> { seq![66u8, 76u8, 83u8, 95u8, 83u8, 73u8, 71u8, 95u8, 66u8, 76u8, 83u8, 49u8, 50u8, 51u8, 56u8, 49u8, 71u8, 50u8, 95u8, 88u8, 77u8, 68u8, 58u8, 83u8, 72u8, 65u8, 45u8, 50u8, 53u8, 54u8, 95u8, 83u8, 83u8, 87u8, 85u8, 95u8, 82u8, 79u8, 95u8, 78u8, 85u8, 76u8, 95u8] } // BLS_SIG_BLS12381G2_XMD:SHA-256_SSWU_RO_NUL_  (src/impls/g2.rs:108)
pub open spec fn pinned_Bls12381G2Impl__BlsSignatureMessageAugmentation__DST() -> Seq<u8> { seq![66u8, 76u8, 83u8, 95u8, 83u8, 73u8, 71u8, 95u8, 66u8, 76u8, 83u8, 49u8, 50u8, 51u8, 56u8, 49u8, 71u8, 50u8, 95u8, 88u8, 77u8, 68u8, 58u8, 83u8, 72u8, 65u8, 45u8, 50u8, 53u8, 54u8, 95u8, 83u8, 83u8, 87u8, 85u8, 95u8, 82u8, 79u8, 95u8, 65u8, 85u8, 71u8, 95u8] } // BLS_SIG_BLS12381G2_XMD:SHA-256_SSWU_RO_AUG_  (src/impls/g2.rs:112)
pub open spec fn pinned_Bls12381G2Impl__BlsSignaturePop__SIG_DST() -> Seq<u8> { seq![66u8, 76u8, 83u8, 95u8, 83u8, 73u8, 71u8, 95u8, 66u8, 76u8, 83u8, 49u8, 50u8, 51u8, 56u8, 49u8, 71u8, 50u8, 95u8, 88u8, 77u8, 68u8, 58u8, 83u8, 72u8, 65u8, 45u8, 50u8, 53u8, 54u8, 95u8, 83u8, 83u8, 87u8, 85u8, 95u8, 82u8, 79u8, 95u8, 80u8, 79u8, 80u8, 95u8] } // BLS_SIG_BLS12381G2_XMD:SHA-256_SSWU_RO_POP_  (src/impls/g2.rs:116)
pub open spec fn pinned_Bls12381G2Impl__BlsSignaturePop__POP_DST() -> Seq<u8> { seq![66u8, 76u8, 83u8, 95u8, 80u8, 79u8, 80u8, 95u8, 66u8, 76u8, 83u8, 49u8, 50u8, 51u8, 56u8, 49u8, 71u8, 50u8, 95u8, 88u8, 77u8, 68u8, 58u8, 83u8, 72u8, 65u8, 45u8, 50u8, 53u8, 54u8, 95u8, 83u8, 83u8, 87u8, 85u8, 95u8, 82u8, 79u8, 95u8, 80u8, 79u8, 80u8, 95u8] } // BLS_POP_BLS12381G2_XMD:SHA-256_SSWU_RO_POP_  (src/impls/g2.rs:117)
pub open spec fn pinned_Bls12381G2Impl__BlsElGamal__ENC_DST() -> Seq<u8> { seq![66u8, 76u8, 83u8, 95u8, 69u8, 76u8, 71u8, 65u8, 77u8, 65u8, 76u8, 95u8, 66u8, 76u8, 83u8, 49u8, 50u8, 51u8, 56u8, 49u8, 71u8, 49u8, 95u8, 88u8, 77u8, 68u8, 58u8, 83u8, 72u8, 65u8, 45u8, 50u8, 53u8, 54u8, 95u8, 83u8, 83u8, 87u8, 85u8, 95u8, 82u8, 79u8, 95u8, 78u8, 85u8, 76u8, 95u8] } // BLS_ELGAMAL_BLS12381G1_XMD:SHA-256_SSWU_RO_NUL_  (src/impls/g2.rs:127)
pub open spec fn pinned_sig_proof__SALT() -> Seq<u8> { seq![66u8, 76u8, 83u8, 95u8, 80u8, 79u8, 75u8, 95u8, 95u8, 66u8, 76u8, 83u8, 49u8, 50u8, 51u8, 56u8, 49u8, 95u8, 88u8, 79u8, 70u8, 58u8, 72u8, 75u8, 68u8, 70u8, 45u8, 83u8, 72u8, 65u8, 50u8, 45u8, 50u8, 53u8, 54u8, 95u8] } // BLS_POK__BLS12381_XOF:HKDF-SHA2-256_  (src/traits/sig_proof.rs:5)
pub open spec fn pinned_time_crypt__SALT() -> Seq<u8> { seq![84u8, 73u8, 77u8, 69u8, 76u8, 79u8, 67u8, 75u8, 95u8, 66u8, 76u8, 83u8, 49u8, 50u8, 51u8, 56u8, 49u8, 95u8, 88u8, 79u8, 70u8, 58u8, 72u8, 75u8, 68u8, 70u8, 45u8, 83u8, 72u8, 65u8, 50u8, 45u8, 50u8, 53u8, 54u8, 95u8] } // TIMELOCK_BLS12381_XOF:HKDF-SHA2-256_  (src/traits/time_crypt.rs:13)
pub open spec fn pinned_elgamal__SALT() -> Seq<u8> { seq![69u8, 76u8, 71u8, 65u8, 77u8, 65u8, 76u8, 95u8, 66u8, 76u8, 83u8, 49u8, 50u8, 51u8, 56u8, 49u8, 95u8, 88u8, 79u8, 70u8, 58u8, 72u8, 75u8, 68u8, 70u8, 45u8, 83u8, 72u8, 65u8, 50u8, 45u8, 50u8, 53u8, 54u8, 95u8] } // ELGAMAL_BLS12381_XOF:HKDF-SHA2-256_  (src/traits/elgamal.rs:6)
pub open spec fn pinned_BlsSignCrypt__seal__SALT() -> Seq<u8> { seq![83u8, 73u8, 71u8, 78u8, 67u8, 82u8, 89u8, 80u8, 84u8, 95u8, 66u8, 76u8, 83u8, 49u8, 50u8, 51u8, 56u8, 49u8, 95u8, 88u8, 79u8, 70u8, 58u8, 72u8, 75u8, 68u8, 70u8, 45u8, 83u8, 72u8, 65u8, 50u8, 45u8, 50u8, 53u8, 54u8, 95u8] } // SIGNCRYPT_BLS12381_XOF:HKDF-SHA2-256_  (src/traits/sign_crypt.rs:22)
pub open spec fn pinned_KEYGEN_SALT() -> Seq<u8> { seq![66u8, 76u8, 83u8, 45u8, 83u8, 73u8, 71u8, 45u8, 75u8, 69u8, 89u8, 71u8, 69u8, 78u8, 45u8, 83u8, 65u8, 76u8, 84u8, 45u8] } // BLS-SIG-KEYGEN-SALT-  (src/helpers.rs:7)
pub open spec fn pinned_scalar_from_hkdf_bytes__INFO() -> Seq<u8> { seq![0u8, 48u8] } // \x000  (src/helpers.rs:9)

pub proof fn c18_constants_equal_their_pins()
    ensures
        Bls12381G1Impl__BlsSignatureBasic__DST_spec() == pinned_Bls12381G1Impl__BlsSignatureBasic__DST(),
        Bls12381G1Impl__BlsSignatureMessageAugmentation__DST_spec() == pinned_Bls12381G1Impl__BlsSignatureMessageAugmentation__DST(),
        Bls12381G1Impl__BlsSignaturePop__SIG_DST_spec() == pinned_Bls12381G1Impl__BlsSignaturePop__SIG_DST(),
        Bls12381G1Impl__BlsSignaturePop__POP_DST_spec() == pinned_Bls12381G1Impl__BlsSignaturePop__POP_DST(),
        Bls12381G1Impl__BlsElGamal__ENC_DST_spec() == pinned_Bls12381G1Impl__BlsElGamal__ENC_DST(),
        Bls12381G2Impl__BlsSignatureBasic__DST_spec() == pinned_Bls12381G2Impl__BlsSignatureBasic__DST(),
        Bls12381G2Impl__BlsSignatureMessageAugmentation__DST_spec() == pinned_Bls12381G2Impl__BlsSignatureMessageAugmentation__DST(),
        Bls12381G2Impl__BlsSignaturePop__SIG_DST_spec() == pinned_Bls12381G2Impl__BlsSignaturePop__SIG_DST(),
        Bls12381G2Impl__BlsSignaturePop__POP_DST_spec() == pinned_Bls12381G2Impl__BlsSignaturePop__POP_DST(),
        Bls12381G2Impl__BlsElGamal__ENC_DST_spec() == pinned_Bls12381G2Impl__BlsElGamal__ENC_DST(),
        sig_proof__SALT_spec() == pinned_sig_proof__SALT(),
        time_crypt__SALT_spec() == pinned_time_crypt__SALT(),
        elgamal__SALT_spec() == pinned_elgamal__SALT(),
        BlsSignCrypt__seal__SALT_spec() == pinned_BlsSignCrypt__seal__SALT(),
        KEYGEN_SALT_spec() == pinned_KEYGEN_SALT(),
        scalar_from_hkdf_bytes__INFO_spec() == pinned_scalar_from_hkdf_bytes__INFO(),
{
    assert(Bls12381G1Impl__BlsSignatureBasic__DST_spec() =~= pinned_Bls12381G1Impl__BlsSignatureBasic__DST());
    assert(Bls12381G1Impl__BlsSignatureMessageAugmentation__DST_spec() =~= pinned_Bls12381G1Impl__BlsSignatureMessageAugmentation__DST());
    assert(Bls12381G1Impl__BlsSignaturePop__SIG_DST_spec() =~= pinned_Bls12381G1Impl__BlsSignaturePop__SIG_DST());
    assert(Bls12381G1Impl__BlsSignaturePop__POP_DST_spec() =~= pinned_Bls12381G1Impl__BlsSignaturePop__POP_DST());
    assert(Bls12381G1Impl__BlsElGamal__ENC_DST_spec() =~= pinned_Bls12381G1Impl__BlsElGamal__ENC_DST());
    assert(Bls12381G2Impl__BlsSignatureBasic__DST_spec() =~= pinned_Bls12381G2Impl__BlsSignatureBasic__DST());
    assert(Bls12381G2Impl__BlsSignatureMessageAugmentation__DST_spec() =~= pinned_Bls12381G2Impl__BlsSignatureMessageAugmentation__DST());
    assert(Bls12381G2Impl__BlsSignaturePop__SIG_DST_spec() =~= pinned_Bls12381G2Impl__BlsSignaturePop__SIG_DST());
    assert(Bls12381G2Impl__BlsSignaturePop__POP_DST_spec() =~= pinned_Bls12381G2Impl__BlsSignaturePop__POP_DST());
    assert(Bls12381G2Impl__BlsElGamal__ENC_DST_spec() =~= pinned_Bls12381G2Impl__BlsElGamal__ENC_DST());
    assert(sig_proof__SALT_spec() =~= pinned_sig_proof__SALT());
    assert(time_crypt__SALT_spec() =~= pinned_time_crypt__SALT());
    assert(elgamal__SALT_spec() =~= pinned_elgamal__SALT());
    assert(BlsSignCrypt__seal__SALT_spec() =~= pinned_BlsSignCrypt__seal__SALT());
    assert(KEYGEN_SALT_spec() =~= pinned_KEYGEN_SALT());
    assert(scalar_from_hkdf_bytes__INFO_spec() =~= pinned_scalar_from_hkdf_bytes__INFO());
}

// ---------------------------------------------------------------------------------------------
// C12 — threshold signcryption: decryption shares verify against the participant's own key share
// and the ciphertext they were made for, under EVERY ciphertext scheme.
// Recombination: the wrappers forward all shares to the vsss-rs combiner; recombination in the
// exponent is linear (proved, lib_shares.rs), so decryption shares of scalar shares that recombine
// to the key recombine to sk*U — the point the whole key decrypts with.
// ---------------------------------------------------------------------------------------------
pub proof fn lemma_vs_ok_iff(share: Pk, pk: Pk, u: Pk, v: Seq<u8>, w: Sig, d: Seq<u8>)
    ensures vs_ok(share, pk, u, v, w, d) <==> (share.dl() != 0 && pk.dl() != 0 && w.dl() != 0
        && fadd(fmul(fneg(sc_w_point(u, v, d).dl()), share.dl()), fmul(w.dl(), pk.dl())) == 0)
{
    lemma_pair_sum_2((sig_neg(sc_w_point(u, v, d)), share), (w, pk));
    assert(vs_pairs(share, pk, u, v, w, d) =~= seq![(sig_neg(sc_w_point(u, v, d)), share), (w, pk)]);
}
/// -h*(s*r) + (r*h)*s == 0
pub proof fn lemma_share_equation(h: int, s: int, r: int)
    requires inr(h), inr(s), inr(r),
    ensures fadd(fmul(fneg(h), fmul(fmul(1, r), s)), fmul(fmul(h, r), fmul(1, s))) == 0
{
    broadcast use ring;
    assert(fmul(1, r) == fmul(r, 1));
    assert(fmul(1, s) == fmul(s, 1));
    lemma_mul_neg(fmul(r, s), h);
    assert(fmul(fneg(h), fmul(r, s)) == fmul(fmul(r, s), fneg(h)));
    assert(fmul(fmul(r, s), h) == fmul(h, fmul(r, s)));
    lemma_mul_assoc(h, r, s);
    assert(fmul(fmul(h, r), s) == fmul(h, fmul(r, s)));
    assert(fadd(fneg(fmul(h, fmul(r, s))), fmul(h, fmul(r, s))) == fadd(fmul(h, fmul(r, s)), fneg(fmul(h, fmul(r, s)))));
}

/// an honest participant's decryption share for a sealed ciphertext of ANY scheme verifies against
/// that participant's public-key share
pub fn c12_honest_share_verifies(ct: &SignCryptCiphertext, sks: &SecretKeyShare, rr: Scalar)
    requires
        share_scalar(sks.0.val()) is Some, share_scalar(sks.0.val())->Some_0.val() != 0,
        // ct is a sealed ciphertext with ephemeral scalar rr (what sign_crypt produces, C11)
        rr.val() != 0, ct.u == pk_mul(pk_of(1), rr), ct.w == sig_mul(sc_w_point(ct.u, ct.v@, scheme_dst(ct.scheme)), rr),
        sc_w_point(ct.u, ct.v@, scheme_dst(ct.scheme)).dl() != 0,                                // X-NONID
{
    let ds = ct.create_decryption_share(sks);
    let pks = sks.public_key();
    match (ds, pks) {
        (Ok(ds), Ok(pks)) => {
            proof {
                let s = share_scalar(sks.0.val())->Some_0;
                let h = sc_w_point(ct.u, ct.v@, scheme_dst(ct.scheme)).dl();
                let share = pk_mul(ct.u, s);
                let pk = pk_mul(pk_of(1), s);
                lemma_vs_ok_iff(share, pk, ct.u, ct.v@, ct.w, scheme_dst(ct.scheme));
                lemma_share_equation(h, s.val(), rr.val());
                broadcast use lemma_mul_comm, lemma_mul_one;
                lemma_honest_nonzero(h, rr.val());
                lemma_honest_nonzero(rr.val(), s.val());
                assert(pk.dl() == s.val());
                assert(share.dl() == fmul(fmul(1, rr.val()), s.val()));
                assert(share.dl() != 0);
            }
            let v = ds.verify(&pks, ct);
            assert(v is Ok);
        }
        _ => {}
    }
}

/// ... and whatever is accepted satisfies the share equation for THAT ciphertext (its scheme's tag)
/// and THAT key share: a share checked against another participant's key share (another scalar)
/// or another ciphertext fails
pub fn c12_share_bound_to_key_share_and_ciphertext(ds: &SignDecryptionShare, pks1: &PublicKeyShare, pks2: &PublicKeyShare, ct: &SignCryptCiphertext)
    requires
        <Pk as ShareTarget>::dec_of(pks1.0.val()) is Some, <Pk as ShareTarget>::dec_of(pks2.0.val()) is Some,
        <Pk as ShareTarget>::dec_of(pks1.0.val())->Some_0 != <Pk as ShareTarget>::dec_of(pks2.0.val())->Some_0,
{
    let v1 = ds.verify(pks1, ct);
    let v2 = ds.verify(pks2, ct);
    proof {
        if v1 is Ok && v2 is Ok {
            let share = <Pk as ShareTarget>::dec_of(ds.0.val())->Some_0;
            let p1 = <Pk as ShareTarget>::dec_of(pks1.0.val())->Some_0;
            let p2 = <Pk as ShareTarget>::dec_of(pks2.0.val())->Some_0;
            let d = scheme_dst(ct.scheme);
            lemma_vs_ok_iff(share, p1, ct.u, ct.v@, ct.w, d);
            lemma_vs_ok_iff(share, p2, ct.u, ct.v@, ct.w, d);
            let a = fmul(fneg(sc_w_point(ct.u, ct.v@, d).dl()), share.dl());
            lemma_range_mul(fneg(sc_w_point(ct.u, ct.v@, d).dl()), share.dl());
            lemma_range_mul(ct.w.dl(), p1.dl()); lemma_range_mul(ct.w.dl(), p2.dl());
            lemma_add_comm(a, fmul(ct.w.dl(), p1.dl())); lemma_add_comm(a, fmul(ct.w.dl(), p2.dl()));
            lemma_add_cancel(fmul(ct.w.dl(), p1.dl()), fmul(ct.w.dl(), p2.dl()), a);
            lemma_mul_comm(ct.w.dl(), p1.dl()); lemma_mul_comm(ct.w.dl(), p2.dl());
            lemma_mul_cancel(p1.dl(), p2.dl(), ct.w.dl());
        }
    }
    assert(!(v1 is Ok && v2 is Ok));
}

/// decryption shares of scalar shares that recombine to the key decrypt EXACTLY as the whole key
/// does — directly and through a combined decryption key (with C11: to the original message)
pub fn c12_shares_decrypt_like_the_whole_key(ct: &SignCryptCiphertext, sk: &SecretKey, shares: &[SignDecryptionShare], Ghost(f): Ghost<Seq<SkShare>>)
    requires
        f.len() == shares@.len(),
        // shares[i] is what create_decryption_share returns for the scalar share f[i]
        forall|i: int| 0 <= i < f.len() ==> share_scalar((#[trigger] f[i]).val()) is Some && shares@[i].0.id() == f[i].id()
            && shares@[i].0.val() == pk_enc(pk_mul(ct.u, share_scalar(f[i].val())->Some_0)),
        combined(f) == Some(sk.0),               // e.g. any t or more distinct shares of a split (L-LAGRANGE)
        ct_valid(*ct),
{
    proof {
        assert(pk_shares_of(f, sdshares_raw(shares@), ct.u));
        lemma_combine_linear_pk(f, sdshares_raw(shares@), ct.u);
    }
    let whole = ct.decrypt(sk);
    let direct = ct.decrypt_with_shares(shares);
    let key = SignCryptDecryptionKey::from_shares(shares);
    assert(key is Ok && key->Ok_0.0 == pk_mul(ct.u, sk.0));
    match key {
        Ok(k) => {
            let via_key = k.decrypt(ct);
            assert(ct_opt_view(direct) == ct_opt_view(whole));
            assert(ct_opt_view(via_key) == ct_opt_view(whole));
        }
        Err(_) => {}
    }
}

/// fewer than two shares decrypt to nothing; whatever is returned comes from a valid ciphertext
pub fn c12_too_few_shares(ct: &SignCryptCiphertext, shares: &[SignDecryptionShare])
{
    let r = ct.decrypt_with_shares(shares);
    let k = SignCryptDecryptionKey::from_shares(shares);
    assert(shares@.len() < 2 ==> !r.is_some_spec() && k is Err);
    assert(r.is_some_spec() ==> ct_valid(*ct));
}

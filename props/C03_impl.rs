// ---------------------------------------------------------------------------------------------
// C03 (implementor unit) — the ciphersuite identifiers and the KeyGen salt are byte-for-byte the
// strings of draft-irtf-cfrg-bls-signature (section 4.2 ciphersuites: minimal-signature-size =
// BLS12381G1, minimal-pubkey-size = BLS12381G2; section 2.3 KeyGen).  The strings below were
// typed from the draft, not copied from the code.
// ---------------------------------------------------------------------------------------------
pub open spec fn ietf_Bls12381G1Impl__BlsSignatureBasic__DST() -> Seq<u8> { seq![66u8, 76u8, 83u8, 95u8, 83u8, 73u8, 71u8, 95u8, 66u8, 76u8, 83u8, 49u8, 50u8, 51u8, 56u8, 49u8, 71u8, 49u8, 95u8, 88u8, 77u8, 68u8, 58u8, 83u8, 72u8, 65u8, 45u8, 50u8, 53u8, 54u8, 95u8, 83u8, 83u8, 87u8, 85u8, 95u8, 82u8, 79u8, 95u8, 78u8, 85u8, 76u8, 95u8] } // "BLS_SIG_BLS12381G1_XMD:SHA-256_SSWU_RO_NUL_"
pub open spec fn ietf_Bls12381G1Impl__BlsSignatureMessageAugmentation__DST() -> Seq<u8> { seq![66u8, 76u8, 83u8, 95u8, 83u8, 73u8, 71u8, 95u8, 66u8, 76u8, 83u8, 49u8, 50u8, 51u8, 56u8, 49u8, 71u8, 49u8, 95u8, 88u8, 77u8, 68u8, 58u8, 83u8, 72u8, 65u8, 45u8, 50u8, 53u8, 54u8, 95u8, 83u8, 83u8, 87u8, 85u8, 95u8, 82u8, 79u8, 95u8, 65u8, 85u8, 71u8, 95u8] } // "BLS_SIG_BLS12381G1_XMD:SHA-256_SSWU_RO_AUG_"
pub open spec fn ietf_Bls12381G1Impl__BlsSignaturePop__SIG_DST() -> Seq<u8> { seq![66u8, 76u8, 83u8, 95u8, 83u8, 73u8, 71u8, 95u8, 66u8, 76u8, 83u8, 49u8, 50u8, 51u8, 56u8, 49u8, 71u8, 49u8, 95u8, 88u8, 77u8, 68u8, 58u8, 83u8, 72u8, 65u8, 45u8, 50u8, 53u8, 54u8, 95u8, 83u8, 83u8, 87u8, 85u8, 95u8, 82u8, 79u8, 95u8, 80u8, 79u8, 80u8, 95u8] } // "BLS_SIG_BLS12381G1_XMD:SHA-256_SSWU_RO_POP_"
pub open spec fn ietf_Bls12381G1Impl__BlsSignaturePop__POP_DST() -> Seq<u8> { seq![66u8, 76u8, 83u8, 95u8, 80u8, 79u8, 80u8, 95u8, 66u8, 76u8, 83u8, 49u8, 50u8, 51u8, 56u8, 49u8, 71u8, 49u8, 95u8, 88u8, 77u8, 68u8, 58u8, 83u8, 72u8, 65u8, 45u8, 50u8, 53u8, 54u8, 95u8, 83u8, 83u8, 87u8, 85u8, 95u8, 82u8, 79u8, 95u8, 80u8, 79u8, 80u8, 95u8] } // "BLS_POP_BLS12381G1_XMD:SHA-256_SSWU_RO_POP_"
pub open spec fn ietf_Bls12381G2Impl__BlsSignatureBasic__DST() -> Seq<u8> { seq![66u8, 76u8, 83u8, 95u8, 83u8, 73u8, 71u8, 95u8, 66u8, 76u8, 83u8, 49u8, 50u8, 51u8, 56u8, 49u8, 71u8, 50u8, 95u8, 88u8, 77u8, 68u8, 58u8, 83u8, 72u8, 65u8, 45u8, 50u8, 53u8, 54u8, 95u8, 83u8, 83u8, 87u8, 85u8, 95u8, 82u8, 79u8, 95u8, 78u8, 85u8, 76u8, 95u8] } // "BLS_SIG_BLS12381G2_XMD:SHA-256_SSWU_RO_NUL_"
pub open spec fn ietf_Bls12381G2Impl__BlsSignatureMessageAugmentation__DST() -> Seq<u8> { seq![66u8, 76u8, 83u8, 95u8, 83u8, 73u8, 71u8, 95u8, 66u8, 76u8, 83u8, 49u8, 50u8, 51u8, 56u8, 49u8, 71u8, 50u8, 95u8, 88u8, 77u8, 68u8, 58u8, 83u8, 72u8, 65u8, 45u8, 50u8, 53u8, 54u8, 95u8, 83u8, 83u8, 87u8, 85u8, 95u8, 82u8, 79u8, 95u8, 65u8, 85u8, 71u8, 95u8] } // "BLS_SIG_BLS12381G2_XMD:SHA-256_SSWU_RO_AUG_"
pub open spec fn ietf_Bls12381G2Impl__BlsSignaturePop__SIG_DST() -> Seq<u8> { seq![66u8, 76u8, 83u8, 95u8, 83u8, 73u8, 71u8, 95u8, 66u8, 76u8, 83u8, 49u8, 50u8, 51u8, 56u8, 49u8, 71u8, 50u8, 95u8, 88u8, 77u8, 68u8, 58u8, 83u8, 72u8, 65u8, 45u8, 50u8, 53u8, 54u8, 95u8, 83u8, 83u8, 87u8, 85u8, 95u8, 82u8, 79u8, 95u8, 80u8, 79u8, 80u8, 95u8] } // "BLS_SIG_BLS12381G2_XMD:SHA-256_SSWU_RO_POP_"
pub open spec fn ietf_Bls12381G2Impl__BlsSignaturePop__POP_DST() -> Seq<u8> { seq![66u8, 76u8, 83u8, 95u8, 80u8, 79u8, 80u8, 95u8, 66u8, 76u8, 83u8, 49u8, 50u8, 51u8, 56u8, 49u8, 71u8, 50u8, 95u8, 88u8, 77u8, 68u8, 58u8, 83u8, 72u8, 65u8, 45u8, 50u8, 53u8, 54u8, 95u8, 83u8, 83u8, 87u8, 85u8, 95u8, 82u8, 79u8, 95u8, 80u8, 79u8, 80u8, 95u8] } // "BLS_POP_BLS12381G2_XMD:SHA-256_SSWU_RO_POP_"
pub open spec fn ietf_KEYGEN_SALT() -> Seq<u8> { seq![66u8, 76u8, 83u8, 45u8, 83u8, 73u8, 71u8, 45u8, 75u8, 69u8, 89u8, 71u8, 69u8, 78u8, 45u8, 83u8, 65u8, 76u8, 84u8, 45u8] } // "BLS-SIG-KEYGEN-SALT-"

pub proof fn c03_tags_equal_the_ietf_strings()
    ensures
        Bls12381G1Impl__BlsSignatureBasic__DST_spec() == ietf_Bls12381G1Impl__BlsSignatureBasic__DST(),
        Bls12381G1Impl__BlsSignatureMessageAugmentation__DST_spec() == ietf_Bls12381G1Impl__BlsSignatureMessageAugmentation__DST(),
        Bls12381G1Impl__BlsSignaturePop__SIG_DST_spec() == ietf_Bls12381G1Impl__BlsSignaturePop__SIG_DST(),
        Bls12381G1Impl__BlsSignaturePop__POP_DST_spec() == ietf_Bls12381G1Impl__BlsSignaturePop__POP_DST(),
        Bls12381G2Impl__BlsSignatureBasic__DST_spec() == ietf_Bls12381G2Impl__BlsSignatureBasic__DST(),
        Bls12381G2Impl__BlsSignatureMessageAugmentation__DST_spec() == ietf_Bls12381G2Impl__BlsSignatureMessageAugmentation__DST(),
        Bls12381G2Impl__BlsSignaturePop__SIG_DST_spec() == ietf_Bls12381G2Impl__BlsSignaturePop__SIG_DST(),
        Bls12381G2Impl__BlsSignaturePop__POP_DST_spec() == ietf_Bls12381G2Impl__BlsSignaturePop__POP_DST(),
        KEYGEN_SALT_spec() == ietf_KEYGEN_SALT(),
{
    assert(Bls12381G1Impl__BlsSignatureBasic__DST_spec() =~= ietf_Bls12381G1Impl__BlsSignatureBasic__DST());
    assert(Bls12381G1Impl__BlsSignatureMessageAugmentation__DST_spec() =~= ietf_Bls12381G1Impl__BlsSignatureMessageAugmentation__DST());
    assert(Bls12381G1Impl__BlsSignaturePop__SIG_DST_spec() =~= ietf_Bls12381G1Impl__BlsSignaturePop__SIG_DST());
    assert(Bls12381G1Impl__BlsSignaturePop__POP_DST_spec() =~= ietf_Bls12381G1Impl__BlsSignaturePop__POP_DST());
    assert(Bls12381G2Impl__BlsSignatureBasic__DST_spec() =~= ietf_Bls12381G2Impl__BlsSignatureBasic__DST());
    assert(Bls12381G2Impl__BlsSignatureMessageAugmentation__DST_spec() =~= ietf_Bls12381G2Impl__BlsSignatureMessageAugmentation__DST());
    assert(Bls12381G2Impl__BlsSignaturePop__SIG_DST_spec() =~= ietf_Bls12381G2Impl__BlsSignaturePop__SIG_DST());
    assert(Bls12381G2Impl__BlsSignaturePop__POP_DST_spec() =~= ietf_Bls12381G2Impl__BlsSignaturePop__POP_DST());
    assert(KEYGEN_SALT_spec() =~= ietf_KEYGEN_SALT());
}

/// both implementors hash to their signature group with expand_message_xmd(SHA-256), derive
/// scalars with the KeyGen construction, and feed the Miller loop with every (signature, key) pair
pub fn c03_g1_impl_meets_abstract_contract(m: &[u8], d: &[u8], points: &[(G1Projective, G2Projective)])
{
    let h = Bls12381G1Impl__hash_to_point(m, d);
    assert(h == g1_h2c(XMD_SHA256(), m@, d@));
    let s = Bls12381G1Impl__hash_to_scalar(m, d);
    assert(s == keygen_spec(Some(d@), m@));
    let g = Bls12381G1Impl__pairing(points);
    assert(g.dl() == pair_sum_12(points@));
}
pub fn c03_g2_impl_meets_abstract_contract(m: &[u8], d: &[u8], points: &[(G2Projective, G1Projective)])
{
    let h = Bls12381G2Impl__hash_to_point(m, d);
    assert(h == g2_h2c(XMD_SHA256(), m@, d@));
    let s = Bls12381G2Impl__hash_to_scalar(m, d);
    assert(s == keygen_spec(Some(d@), m@));
    let g = Bls12381G2Impl__pairing(points);
    assert(g.dl() == pair_sum_21(points@));
}
/// KeyGen: salt as given, IKM || 0x00, info = I2OSP(48, 2), 48 output bytes, reduced mod r, never 0
pub fn c03_keygen(salt: &[u8], ikm: &[u8])
{
    let s = scalar_from_hkdf_bytes(Some(salt), ikm);
    assert(s == scalar_from_okm(hkdf_expand(256, hkdf_extract(256, Some(salt@), ikm@ + seq![0u8]), seq![0u8, 48u8], 48)));
    assert(s.val() != 0);
}

// ----- merlin transcript [H-TRANSCRIPT], ElGamal abstract items ------------------------------------
/// the challenge is an uninterpreted function of the exact sequence of (label, message) pairs
/// appended after the constructor label, the challenge label and the number of bytes requested
pub uninterp spec fn transcript_challenge(log: Seq<(Seq<u8>, Seq<u8>)>, label: Seq<u8>, n: nat) -> Seq<u8>;
pub broadcast axiom fn axiom_transcript_challenge_len(log: Seq<(Seq<u8>, Seq<u8>)>, label: Seq<u8>, n: nat) ensures (#[trigger] transcript_challenge(log, label, n)).len() == n;
pub mod merlin {
    use vstd::prelude::*;
    use super::*;
    #[verifier::external_body]
    pub struct Transcript { _p: [u8; 0] }
    impl Transcript {
        pub uninterp spec fn log(&self) -> Seq<(Seq<u8>, Seq<u8>)>;
        #[verifier::external_body]
        pub fn new<const N: usize>(label: &[u8; N]) -> (t: Transcript) ensures t.log() == seq![(label@, Seq::<u8>::empty())] { unimplemented!() }
        #[verifier::external_body]
        pub fn append_message<const N: usize>(&mut self, label: &[u8; N], message: &[u8]) ensures final(self).log() == old(self).log().push((label@, message@)) { unimplemented!() }
        #[verifier::external_body]
        pub fn challenge_bytes<const N: usize, const M: usize>(&mut self, label: &[u8; N], dest: &mut [u8; M])
            ensures final(dest)@ == transcript_challenge(old(self).log(), label@, M as nat)
        { unimplemented!() }
    }
}
/// `Scalar::from_bytes_wide` behind `BlsElGamal::scalar_from_bytes_wide` (required trait item; both
/// implementors delegate to Scalar::from_bytes_wide, unit IMPL)
pub uninterp spec fn scalar_wide(b: Seq<u8>) -> Scalar;
#[verifier::external_body]
pub fn BlsElGamal__scalar_from_bytes_wide(bytes: &[u8; 64]) -> (s: Scalar) ensures s == scalar_wide(bytes@) { unimplemented!() }
/// hash to the PUBLIC-KEY group (PublicKeyHasher), and the ElGamal tag of the abstract implementor
pub uninterp spec fn hpk(m: Seq<u8>, d: Seq<u8>) -> Pk;
pub uninterp spec fn ENC_DST() -> Seq<u8>;
#[verifier::external_body]
pub fn BlsElGamal__ENC_DST() -> (d: &'static [u8]) ensures d@ == ENC_DST() { unimplemented!() }
pub struct PkHasher {}
impl PkHasher {
    #[verifier::external_body]
    pub fn hash_to_point<B: AsRefBytes, C: AsRefBytes>(m: B, dst: C) -> (p: Pk) ensures p == hpk(m.bytes(), dst.bytes()) { unimplemented!() }
}

// ----- abstract specification vocabulary of the opaque implementor ---------------------------
/// sum over the list of dl(a_i) * dl(b_i) in Z_r — the discrete-log form of a product of pairings
pub open spec fn pair_sum(s: Seq<(Sig, Pk)>) -> int
    decreases s.len()
{
    if s.len() == 0 { 0 } else { fadd(pair_sum(s.drop_last()), fmul(s.last().0.dl(), s.last().1.dl())) }
}

/// hash-to-curve into the signature group (uninterpreted; one function per (message, tag))
pub uninterp spec fn hp(m: Seq<u8>, dst: Seq<u8>) -> Sig;
/// hash-to-scalar (HKDF based, see G?IMPL units)
pub uninterp spec fn hs(m: Seq<u8>, salt: Seq<u8>) -> Scalar;

/// PROVED: a single pairing term
pub broadcast proof fn lemma_pair_sum_len1(s: Seq<(Sig, Pk)>)
    requires s.len() == 1,
    ensures #[trigger] pair_sum(s) == fmul(s[0].0.dl(), s[0].1.dl())
{
    reveal_with_fuel(pair_sum, 2);
    lemma_range_mul(s[0].0.dl(), s[0].1.dl());
    lemma_add_comm(0, fmul(s[0].0.dl(), s[0].1.dl()));
    lemma_add_zero(fmul(s[0].0.dl(), s[0].1.dl()));
    assert(s.drop_last().len() == 0);
    assert(s.last() == s[0]);
}

/// PROVED: two and three pairing terms as plain sums (so the ORDER of the terms in a call is immaterial)
pub broadcast proof fn lemma_pair_sum_len2(s: Seq<(Sig, Pk)>)
    requires s.len() == 2,
    ensures #[trigger] pair_sum(s) == fadd(fmul(s[0].0.dl(), s[0].1.dl()), fmul(s[1].0.dl(), s[1].1.dl()))
{
    lemma_pair_sum_len1(s.drop_last());
    assert(s.drop_last()[0] == s[0]);
    assert(s.last() == s[1]);
}
pub broadcast proof fn lemma_pair_sum_len3(s: Seq<(Sig, Pk)>)
    requires s.len() == 3,
    ensures #[trigger] pair_sum(s) == fadd(fadd(fmul(s[0].0.dl(), s[0].1.dl()), fmul(s[1].0.dl(), s[1].1.dl())), fmul(s[2].0.dl(), s[2].1.dl()))
{
    lemma_pair_sum_len2(s.drop_last());
    assert(s.drop_last()[0] == s[0] && s.drop_last()[1] == s[1]);
    assert(s.last() == s[2]);
}
pub broadcast group pair_sums { lemma_pair_sum_len1, lemma_pair_sum_len2, lemma_pair_sum_len3 }

// ----- Gt, pairing, hashing: ASSUMED [A-PAIRING], [H-*] -----------------------------------------
#[verifier::external_body]
pub struct Gt { _p: [u8; 0] }
impl Clone for Gt { #[verifier::external_body] fn clone(&self) -> (o: Self) ensures o == *self { unimplemented!() } }
impl Copy for Gt {}
#[verifier::external_body]
pub struct GtRepr { _p: [u8; 0] }
impl View for GtRepr { type V = Seq<u8>; uninterp spec fn view(&self) -> Seq<u8>; }
impl AsRefBytes for GtRepr {
    open spec fn bytes(&self) -> Seq<u8> { self@ }
    #[verifier::external_body]
    fn as_ref(&self) -> (r: &[u8]) { unimplemented!() }
}
pub uninterp spec fn gt_enc(p: Gt) -> Seq<u8>;
pub broadcast axiom fn axiom_gt_enc_inj(p: Gt, q: Gt) ensures (#[trigger] gt_enc(p) == #[trigger] gt_enc(q)) ==> p == q;
impl Gt {
    pub uninterp spec fn dl(&self) -> int;
    #[verifier::external_body]
    pub fn is_identity(&self) -> (c: Choice) ensures c@ == (self.dl() == 0) { unimplemented!() }
    #[verifier::external_body]
    pub fn to_bytes(&self) -> (b: GtRepr) ensures b@ == gt_enc(*self) { unimplemented!() }
}
pub broadcast axiom fn axiom_gt_range(p: Gt) ensures inr(#[trigger] p.dl());
pub broadcast axiom fn axiom_gt_inj(a: Gt, b: Gt) ensures (#[trigger] a.dl() == #[trigger] b.dl()) ==> a == b;

pub uninterp spec fn gt_of(d: int) -> Gt;
pub broadcast axiom fn axiom_gt_of(d: int) requires inr(d) ensures (#[trigger] gt_of(d)).dl() == d;

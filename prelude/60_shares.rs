// ----- vsss-rs shares: ASSUMED [L-VSSS] -----------------------------------------------------------------
// A share is (identifier: u8, value: bytes).  SkShare = [u8; 33]; PkShare / SigShare = the
// InnerPointShare types (identifier byte + compressed point).  vsss errors are collapsed into
// BlsError::VsssError (blsful's `From<vsss_rs::Error> for BlsError`).
use super::extracted::BlsError;
pub type VResult<T> = Result<T, BlsError>;
/// a decodable target of `Share::as_group_element` (the CHECKED decoder: on-curve and in the subgroup)
pub trait ShareTarget: Sized {
    spec fn enc_of(p: Self) -> Seq<u8>;
    spec fn dec_of(b: Seq<u8>) -> Option<Self>;
}
impl ShareTarget for Pk { open spec fn enc_of(p: Pk) -> Seq<u8> { pk_enc(p) } uninterp spec fn dec_of(b: Seq<u8>) -> Option<Pk>; }
impl ShareTarget for Sig { open spec fn enc_of(p: Sig) -> Seq<u8> { sig_enc(p) } uninterp spec fn dec_of(b: Seq<u8>) -> Option<Sig>; }
pub broadcast axiom fn axiom_dec_pk(p: Pk) ensures #[trigger] <Pk as ShareTarget>::dec_of(pk_enc(p)) == Some(p);
pub broadcast axiom fn axiom_dec_sig(p: Sig) ensures #[trigger] <Sig as ShareTarget>::dec_of(sig_enc(p)) == Some(p);
pub broadcast axiom fn axiom_dec_pk_inv(b: Seq<u8>) ensures (#[trigger] <Pk as ShareTarget>::dec_of(b)) is Some ==> pk_enc(<Pk as ShareTarget>::dec_of(b)->Some_0) == b;
pub broadcast axiom fn axiom_dec_sig_inv(b: Seq<u8>) ensures (#[trigger] <Sig as ShareTarget>::dec_of(b)) is Some ==> sig_enc(<Sig as ShareTarget>::dec_of(b)->Some_0) == b;
pub trait FieldTarget: Sized { spec fn as_scalar(&self) -> Scalar; }
impl FieldTarget for Scalar { open spec fn as_scalar(&self) -> Scalar { *self } }
/// field-element shares: value bytes <-> scalar
pub uninterp spec fn share_scalar(b: Seq<u8>) -> Option<Scalar>;
pub uninterp spec fn scalar_share_bytes(s: Scalar) -> Seq<u8>;
pub broadcast axiom fn axiom_share_scalar(s: Scalar) ensures #[trigger] share_scalar(scalar_share_bytes(s)) == Some(s);


#[verifier::external_body]
pub struct SkShare { _p: [u8; 0] }
impl Clone for SkShare { #[verifier::external_body] fn clone(&self) -> (o: Self) ensures o == *self { unimplemented!() } }
impl Copy for SkShare {}
impl SkShare {
    pub uninterp spec fn id(&self) -> u8;
    pub uninterp spec fn val(&self) -> Seq<u8>;
    #[verifier::external_body]
    pub fn empty_share_with_capacity(n: usize) -> (s: SkShare) ensures s.id() == 0 { unimplemented!() }
    #[verifier::external_body]
    pub fn identifier(&self) -> (i: u8) ensures i == self.id() { unimplemented!() }
    #[verifier::external_body]
    pub fn identifier_mut(&mut self) -> (r: &mut u8) ensures *r == old(self).id(), final(self).id() == *final(r), final(self).val() == old(self).val() { unimplemented!() }
    /// stores the value bytes (the length must fit the share type)
    #[verifier::external_body]
    pub fn value_mut(&mut self, bytes: &[u8]) -> (r: Result<(), VsssErr>) ensures final(self).id() == old(self).id(), r is Ok ==> final(self).val() == bytes@ { unimplemented!() }
    #[verifier::external_body]
    pub fn as_group_element<T: ShareTarget>(&self) -> (r: VResult<T>) ensures (r is Ok) == (T::dec_of(self.val()) is Some), r is Ok ==> r->Ok_0 == T::dec_of(self.val())->Some_0 { unimplemented!() }
    #[verifier::external_body]
    pub fn as_field_element<T: FieldTarget>(&self) -> (r: VResult<T>) ensures (r is Ok) == (share_scalar(self.val()) is Some), r is Ok ==> r->Ok_0.as_scalar() == share_scalar(self.val())->Some_0 { unimplemented!() }
}

#[verifier::external_body]
pub struct PkShare { _p: [u8; 0] }
impl Clone for PkShare { #[verifier::external_body] fn clone(&self) -> (o: Self) ensures o == *self { unimplemented!() } }
impl Copy for PkShare {}
impl PkShare {
    pub uninterp spec fn id(&self) -> u8;
    pub uninterp spec fn val(&self) -> Seq<u8>;
    #[verifier::external_body]
    pub fn empty_share_with_capacity(n: usize) -> (s: PkShare) ensures s.id() == 0 { unimplemented!() }
    #[verifier::external_body]
    pub fn identifier(&self) -> (i: u8) ensures i == self.id() { unimplemented!() }
    #[verifier::external_body]
    pub fn identifier_mut(&mut self) -> (r: &mut u8) ensures *r == old(self).id(), final(self).id() == *final(r), final(self).val() == old(self).val() { unimplemented!() }
    /// stores the value bytes (the length must fit the share type)
    #[verifier::external_body]
    pub fn value_mut(&mut self, bytes: &[u8]) -> (r: Result<(), VsssErr>) ensures final(self).id() == old(self).id(), r is Ok ==> final(self).val() == bytes@ { unimplemented!() }
    #[verifier::external_body]
    pub fn as_group_element<T: ShareTarget>(&self) -> (r: VResult<T>) ensures (r is Ok) == (T::dec_of(self.val()) is Some), r is Ok ==> r->Ok_0 == T::dec_of(self.val())->Some_0 { unimplemented!() }
    #[verifier::external_body]
    pub fn as_field_element<T: FieldTarget>(&self) -> (r: VResult<T>) ensures (r is Ok) == (share_scalar(self.val()) is Some), r is Ok ==> r->Ok_0.as_scalar() == share_scalar(self.val())->Some_0 { unimplemented!() }
}

#[verifier::external_body]
pub struct SigShare { _p: [u8; 0] }
impl Clone for SigShare { #[verifier::external_body] fn clone(&self) -> (o: Self) ensures o == *self { unimplemented!() } }
impl Copy for SigShare {}
impl SigShare {
    pub uninterp spec fn id(&self) -> u8;
    pub uninterp spec fn val(&self) -> Seq<u8>;
    #[verifier::external_body]
    pub fn empty_share_with_capacity(n: usize) -> (s: SigShare) ensures s.id() == 0 { unimplemented!() }
    #[verifier::external_body]
    pub fn identifier(&self) -> (i: u8) ensures i == self.id() { unimplemented!() }
    #[verifier::external_body]
    pub fn identifier_mut(&mut self) -> (r: &mut u8) ensures *r == old(self).id(), final(self).id() == *final(r), final(self).val() == old(self).val() { unimplemented!() }
    /// stores the value bytes (the length must fit the share type)
    #[verifier::external_body]
    pub fn value_mut(&mut self, bytes: &[u8]) -> (r: Result<(), VsssErr>) ensures final(self).id() == old(self).id(), r is Ok ==> final(self).val() == bytes@ { unimplemented!() }
    #[verifier::external_body]
    pub fn as_group_element<T: ShareTarget>(&self) -> (r: VResult<T>) ensures (r is Ok) == (T::dec_of(self.val()) is Some), r is Ok ==> r->Ok_0 == T::dec_of(self.val())->Some_0 { unimplemented!() }
    #[verifier::external_body]
    pub fn as_field_element<T: FieldTarget>(&self) -> (r: VResult<T>) ensures (r is Ok) == (share_scalar(self.val()) is Some), r is Ok ==> r->Ok_0.as_scalar() == share_scalar(self.val())->Some_0 { unimplemented!() }
}

#[verifier::external_body]
pub struct VsssErr { _p: [u8; 0] }

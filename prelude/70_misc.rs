// ----- randomness: ASSUMED [A-RNG] ---------------------------------------------------------------
/// every `impl RngCore + CryptoRng` parameter is instantiated at this type (E3); it is also what
/// `ChaCha20Rng::from_entropy()` returns.  Ghost model: an abstract state, a flag saying whether
/// the generator was seeded from OS entropy in this call chain, and the number of draws made.
#[verifier::external_body]
pub struct ChaCha20Rng { _p: [u8; 0] }
pub uninterp spec fn draw_bytes(state: int, n: nat) -> Seq<u8>;
pub uninterp spec fn draw_scalar(state: int) -> Scalar;
pub uninterp spec fn next_state(state: int) -> int;
/// ASSUMED: the OS entropy source never repeats a seed (freshness across calls/processes)
pub uninterp spec fn os_entropy_state(call_id: int) -> int;
pub trait DrawTarget: Sized {
    spec fn drawn(&self) -> Seq<u8>;
    spec fn width() -> nat;
}
impl<const N: usize> DrawTarget for [u8; N] {
    open spec fn drawn(&self) -> Seq<u8> { self@ }
    open spec fn width() -> nat { N as nat }
}
impl ChaCha20Rng {
    pub uninterp spec fn state(&self) -> int;
    pub uninterp spec fn entropy_seeded(&self) -> bool;
    /// the state the generator had when it was created from entropy
    pub uninterp spec fn origin(&self) -> int;
    #[verifier::external_body]
    pub fn from_entropy() -> (g: ChaCha20Rng)
        ensures fresh_rng(g)
    { unimplemented!() }
    #[verifier::external_body]
    pub fn from_seed(seed: [u8; 32]) -> (g: ChaCha20Rng) ensures !g.entropy_seeded() { unimplemented!() }
}
/// a generator obtained from OS entropy in this call and not yet drawn from
pub open spec fn fresh_rng(g: ChaCha20Rng) -> bool {
    g.entropy_seeded() && g.state() == g.origin() && exists|c: int| g.origin() == #[trigger] os_entropy_state(c)
}
/// E3e: what an `impl RngCore + CryptoRng` argument can be: the generator itself or `&mut` of it
pub trait RngArg: Sized {
    /// the generator state the next draw is taken from
    spec fn st(&self) -> int;
    spec fn seeded(&self) -> bool;
    /// true for the generator itself, false for a `&mut` borrow of one (whose later state is not
    /// tracked through a by-value call)
    spec fn by_value(&self) -> bool;
    fn gen<T: DrawTarget>(&mut self) -> (t: T)
        ensures t.drawn() == draw_bytes(old(self).st(), T::width()), (*final(self)).st() == next_state(old(self).st()), (*final(self)).seeded() == old(self).seeded();
}
impl RngArg for ChaCha20Rng {
    open spec fn st(&self) -> int { self.state() }
    open spec fn seeded(&self) -> bool { self.entropy_seeded() }
    open spec fn by_value(&self) -> bool { true }
    #[verifier::external_body]
    fn gen<T: DrawTarget>(&mut self) -> (t: T) { unimplemented!() }
}
impl<'a> RngArg for &'a mut ChaCha20Rng {
    open spec fn st(&self) -> int { (**self).state() }
    open spec fn seeded(&self) -> bool { (**self).entropy_seeded() }
    open spec fn by_value(&self) -> bool { false }
    #[verifier::external_body]
    fn gen<T: DrawTarget>(&mut self) -> (t: T) { unimplemented!() }
}
impl Scalar {
    /// `Field::random(rng)`: one draw from the generator's current state
    #[verifier::external_body]
    pub fn random<R: RngArg>(rng: R) -> (s: Scalar) ensures rng.by_value() ==> s == draw_scalar(rng.st()) { unimplemented!() }
}
impl Scalar {
    /// E18: `Field::random(&mut g)` for a local generator g: one draw, the generator advances
    #[verifier::external_body]
    pub fn random_mut(rng: &mut ChaCha20Rng) -> (s: Scalar)
        ensures s == draw_scalar(old(rng).state()), final(rng).state() == next_state(old(rng).state()),
            final(rng).entropy_seeded() == old(rng).entropy_seeded(), final(rng).origin() == old(rng).origin(),
    { unimplemented!() }
}
impl<const N: usize> AsRefBytes for [u8; N] {
    open spec fn bytes(&self) -> Seq<u8> { self@ }
    #[verifier::external_body]
    fn as_ref(&self) -> (r: &[u8]) { unimplemented!() }
}

// ----- randomness: ASSUMED [A-RNG] ---------------------------------------------------------------
/// every `impl RngCore + CryptoRng` parameter is instantiated at this type (E3); it is also what
/// `ChaCha20Rng::from_entropy()` returns.  Ghost model: an abstract state, a flag saying whether
/// the generator was seeded from OS entropy in this call chain, and the number of draws made.
#[verifier::external_body]
pub struct ChaCha20Rng { _p: [u8; 0] }
pub uninterp spec fn draw_bytes(state: int, n: nat) -> Seq<u8>;
pub uninterp spec fn draw_scalar(state: int) -> Scalar;
pub uninterp spec fn next_state(state: int) -> int;
/// ASSUMED: the OS entropy source never repeats a seed (freshness across calls/processes)
pub uninterp spec fn os_entropy_state(call_id: int) -> int;
pub trait DrawTarget: Sized {
    spec fn drawn(&self) -> Seq<u8>;
    spec fn width() -> nat;
}
impl<const N: usize> DrawTarget for [u8; N] {
    open spec fn drawn(&self) -> Seq<u8> { self@ }
    open spec fn width() -> nat { N as nat }
}
impl ChaCha20Rng {
    pub uninterp spec fn state(&self) -> int;
    pub uninterp spec fn entropy_seeded(&self) -> bool;
    /// the state the generator had when it was created from entropy
    pub uninterp spec fn origin(&self) -> int;
    #[verifier::external_body]
    pub fn from_entropy() -> (g: ChaCha20Rng)
        ensures fresh_rng(g)
    { unimplemented!() }
    #[verifier::external_body]
    pub fn from_seed(seed: [u8; 32]) -> (g: ChaCha20Rng) ensures !g.entropy_seeded() { unimplemented!() }
    #[verifier::external_body]
    pub fn gen<T: DrawTarget>(&mut self) -> (t: T)
        ensures
            t.drawn() == draw_bytes(old(self).state(), T::width()),
            final(self).state() == next_state(old(self).state()),
            final(self).entropy_seeded() == old(self).entropy_seeded(),
            final(self).origin() == old(self).origin(),
    { unimplemented!() }
}
/// a generator obtained from OS entropy in this call and not yet drawn from
pub open spec fn fresh_rng(g: ChaCha20Rng) -> bool {
    g.entropy_seeded() && g.state() == g.origin() && exists|c: int| g.origin() == #[trigger] os_entropy_state(c)
}
impl Scalar {
    /// `Field::random(rng)` consumes or borrows the generator; by-value form
    #[verifier::external_body]
    pub fn random(rng: ChaCha20Rng) -> (s: Scalar) ensures s == draw_scalar(rng.state()) { unimplemented!() }
}
impl<const N: usize> AsRefBytes for [u8; N] {
    open spec fn bytes(&self) -> Seq<u8> { self@ }
    #[verifier::external_body]
    fn as_ref(&self) -> (r: &[u8]) { unimplemented!() }
}

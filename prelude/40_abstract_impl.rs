// ----- the opaque implementor (E2): required trait items with their ABSTRACT contracts.
// (every tag is non-empty: the extracted literals are compared with the IETF strings in unit IMPL)
// These are not assumptions about blsful: the units G1IMPL and G2IMPL prove that both concrete
// implementors satisfy them.
#[verifier::external_body]
pub fn HashToPoint__hash_to_point<B: AsRefBytes, C: AsRefBytes>(m: B, dst: C) -> (p: Sig)
    ensures p == hp(m.bytes(), dst.bytes())
{ unimplemented!() }
#[verifier::external_body]
pub fn HashToScalar__hash_to_scalar<B: AsRefBytes, C: AsRefBytes>(m: B, dst: C) -> (s: Scalar)
    ensures s == hs(m.bytes(), dst.bytes()), s.val() != 0   // non-zero: proved for both implementors (scalar_from_hkdf_bytes, unit IMPL)
{ unimplemented!() }
#[verifier::external_body]
pub fn Pairing__pairing(points: &[(Sig, Pk)]) -> (g: Gt)
    ensures g.dl() == pair_sum(points@)
{ unimplemented!() }
pub uninterp spec fn DST_BASIC() -> Seq<u8>;
pub uninterp spec fn DST_AUG() -> Seq<u8>;
pub uninterp spec fn DST_POP_SIG() -> Seq<u8>;
pub uninterp spec fn DST_POP_PROOF() -> Seq<u8>;
#[verifier::external_body]
pub fn BlsSignatureBasic__DST() -> (d: &'static [u8]) ensures d@ == DST_BASIC(), d@.len() > 0 { unimplemented!() }
#[verifier::external_body]
pub fn BlsSignatureMessageAugmentation__DST() -> (d: &'static [u8]) ensures d@ == DST_AUG(), d@.len() > 0 { unimplemented!() }
#[verifier::external_body]
pub fn BlsSignaturePop__SIG_DST() -> (d: &'static [u8]) ensures d@ == DST_POP_SIG(), d@.len() > 0 { unimplemented!() }
#[verifier::external_body]
pub fn BlsSignaturePop__POP_DST() -> (d: &'static [u8]) ensures d@ == DST_POP_PROOF(), d@.len() > 0 { unimplemented!() }

// ----- serde_bare byte forms: ASSUMED [L-SERDE] -------------------------------------------------------------
// The derive expansions and serde_bare itself are NOT verified.  Their behaviour is modelled by one
// uninterpreted encoding per type with the single assumed law "decoding an encoding gives the value
// back" (lossless, deterministic).  What IS verified on top of it is blsful's own code around the
// calls: which value is handed to the encoder, the length guards, the scheme tag <-> variant maps.
// vsss / serde errors are collapsed into BlsError (blsful's `From<serde_bare::error::Error>`).
pub trait BareForm: Sized {
    spec fn bare(&self) -> Seq<u8>;
    spec fn unbare(b: Seq<u8>) -> Option<Self>;
}
pub broadcast axiom fn axiom_bare_round_trip<T: BareForm>(v: T)
    ensures #[trigger] T::unbare(v.bare()) == Some(v);
#[verifier::external_body]
pub struct BareError { _p: [u8; 0] }
impl core::fmt::Debug for BareError { #[verifier::external_body] fn fmt(&self, f: &mut core::fmt::Formatter<'_>) -> core::fmt::Result { unimplemented!() } }
pub mod serde_bare {
    use super::*;
    /// never fails for the fixed-layout types of this crate (assumed)
    #[verifier::external_body]
    pub fn to_vec<T: BareForm>(v: &T) -> (r: Result<Vec<u8>, BareError>)
        ensures r is Ok, r->Ok_0@ == v.bare()
    { unimplemented!() }
    #[verifier::external_body]
    pub fn from_slice<T: BareForm>(b: &[u8]) -> (r: VResult<T>)
        ensures match T::unbare(b@) { Some(v) => r is Ok && r->Ok_0 == v, None => r is Err }
    { unimplemented!() }
}
impl BareForm for SkShare { uninterp spec fn bare(&self) -> Seq<u8>; uninterp spec fn unbare(b: Seq<u8>) -> Option<Self>; }
impl BareForm for PkShare { uninterp spec fn bare(&self) -> Seq<u8>; uninterp spec fn unbare(b: Seq<u8>) -> Option<Self>; }
impl BareForm for SigShare { uninterp spec fn bare(&self) -> Seq<u8>; uninterp spec fn unbare(b: Seq<u8>) -> Option<Self>; }

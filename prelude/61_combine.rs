// ----- vsss-rs split / combine: ASSUMED [L-VSSS] ----------------------------------------------------------
// Model of `vsss_rs::combine_shares{,_group}` as read from vsss-rs 4.3.8 src/set.rs
// (`ShareSetCombiner::combine` + `interpolate`): the call fails for fewer than two shares, a zero
// identifier, an undecodable value (checked decoder) or a duplicate identifier, and otherwise
// returns   sum_i  basis(ids, i) * y_i   where the Lagrange basis depends on the identifiers only.
// The basis itself stays uninterpreted: that it interpolates a polynomial at 0 (L-LAGRANGE) is a
// separate, explicitly named assumption (`split_ok` below) used only by the t-of-n statements.
pub uninterp spec fn lag_basis(ids: Seq<u8>, i: int) -> int;
pub broadcast axiom fn axiom_lag_basis_range(ids: Seq<u8>, i: int) ensures inr(#[trigger] lag_basis(ids, i));
pub open spec fn lag_sum(ids: Seq<u8>, ys: Seq<int>, n: int) -> int
    decreases n
{
    if n <= 0 { 0 } else { fadd(lag_sum(ids, ys, n - 1), fmul(ys[n - 1], lag_basis(ids, n - 1))) }
}
pub open spec fn ids_ok(ids: Seq<u8>) -> bool {
    ids.len() >= 2
    && (forall|i: int| 0 <= i < ids.len() ==> #[trigger] ids[i] != 0)
    && (forall|i: int, j: int| 0 <= i < j < ids.len() ==> #[trigger] ids[i] != #[trigger] ids[j])
}
/// a share type the combiner accepts: identifier, decoded value (None = the checked decoder refuses it)
pub trait CombShare: Sized {
    type Target;
    spec fn sid(&self) -> u8;
    spec fn sdl(&self) -> Option<int>;
    spec fn target_of(d: int) -> Self::Target;
}
impl CombShare for SkShare {
    type Target = Scalar;
    open spec fn sid(&self) -> u8 { self.id() }
    open spec fn sdl(&self) -> Option<int> { match share_scalar(self.val()) { Some(s) => Some(s.val()), None => None } }
    open spec fn target_of(d: int) -> Scalar { scalar_of(d) }
}
impl CombShare for PkShare {
    type Target = Pk;
    open spec fn sid(&self) -> u8 { self.id() }
    open spec fn sdl(&self) -> Option<int> { match <Pk as ShareTarget>::dec_of(self.val()) { Some(p) => Some(p.dl()), None => None } }
    open spec fn target_of(d: int) -> Pk { pk_of(d) }
}
impl CombShare for SigShare {
    type Target = Sig;
    open spec fn sid(&self) -> u8 { self.id() }
    open spec fn sdl(&self) -> Option<int> { match <Sig as ShareTarget>::dec_of(self.val()) { Some(p) => Some(p.dl()), None => None } }
    open spec fn target_of(d: int) -> Sig { sig_of(d) }
}
pub open spec fn comb_ids<S: CombShare>(s: Seq<S>) -> Seq<u8> { Seq::new(s.len(), |i: int| s[i].sid()) }
pub open spec fn comb_ys<S: CombShare>(s: Seq<S>) -> Seq<int> { Seq::new(s.len(), |i: int| match s[i].sdl() { Some(d) => d, None => 0 }) }
pub open spec fn comb_accepts<S: CombShare>(s: Seq<S>) -> bool {
    ids_ok(comb_ids(s)) && (forall|i: int| 0 <= i < s.len() ==> (#[trigger] s[i]).sdl() is Some)
}
/// the combiner's result
pub open spec fn combined<S: CombShare>(s: Seq<S>) -> Option<S::Target> {
    if comb_accepts(s) { Some(S::target_of(lag_sum(comb_ids(s), comb_ys(s), s.len() as int))) } else { None }
}
/// `vsss_rs::combine_shares_group::<G, u8, S>(shares)` (errors collapsed into BlsError by `?`)
#[verifier::external_body]
pub fn combine_shares_group<S: CombShare>(shares: &[S]) -> (r: VResult<S::Target>)
    ensures match combined(shares@) { Some(v) => r is Ok && r->Ok_0 == v, None => r is Err }
{ unimplemented!() }
/// `vsss_rs::combine_shares::<F, u8, S>(shares)`
#[verifier::external_body]
pub fn combine_shares(shares: &[SkShare]) -> (r: VResult<Scalar>)
    ensures match combined(shares@) { Some(v) => r is Ok && r->Ok_0 == v, None => r is Err }
{ unimplemented!() }

/// ASSUMED [L-VSSS, L-LAGRANGE]: what `shamir::split_secret(t, n, secret, rng)` returns.
/// `split_ok(shares, secret, t)` = the shares are points (i+1, p(i+1)) of a polynomial of degree < t
/// with p(0) = secret; its only use is the interpolation fact below.
pub uninterp spec fn split_ok(shares: Seq<SkShare>, secret: Scalar, t: int) -> bool;
pub mod shamir {
    use super::*;
    #[verifier::external_body]
    pub fn split_secret<R: RngArg>(threshold: usize, limit: usize, secret: Scalar, rng: R) -> (r: VResult<Vec<SkShare>>)
        ensures
            (r is Ok) == (2 <= threshold <= limit <= 255),
            r is Ok ==> r->Ok_0@.len() == limit && split_ok(r->Ok_0@, secret, threshold as int)
                && (forall|i: int| 0 <= i < limit ==> (#[trigger] r->Ok_0@[i]).id() == i + 1 && share_scalar(r->Ok_0@[i].val()) is Some),
    { unimplemented!() }
}
/// `sub` picks shares of `all` at pairwise distinct positions
pub open spec fn picks(sub: Seq<SkShare>, all: Seq<SkShare>, pos: Seq<int>) -> bool {
    pos.len() == sub.len()
    && (forall|k: int| 0 <= k < sub.len() ==> 0 <= #[trigger] pos[k] < all.len() && sub[k] == all[pos[k]])
    && (forall|k: int, l: int| 0 <= k < l < sub.len() ==> #[trigger] pos[k] != #[trigger] pos[l])
}
/// ASSUMED [L-LAGRANGE]: any t or more distinct shares of a split interpolate back to the secret
pub axiom fn axiom_interpolation(all: Seq<SkShare>, secret: Scalar, t: int, sub: Seq<SkShare>, pos: Seq<int>)
    requires split_ok(all, secret, t), picks(sub, all, pos), sub.len() >= t, t >= 2,
    ensures combined(sub) == Some(secret);

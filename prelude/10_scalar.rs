// ---------------------------------------------------------------------------------------------
// prelude/10_scalar.rs — ASSUMED contracts [A-GROUP] for the scalar field type, `subtle`
// [L-SUBTLE], errors and byte containers.  Nothing here is blsful code.
// ---------------------------------------------------------------------------------------------

// ----- subtle::Choice ------------------------------------------------------------------------
#[verifier::external_body]
pub struct Choice { _p: [u8; 0] }
impl Clone for Choice { #[verifier::external_body] fn clone(&self) -> (o: Self) ensures o == *self { unimplemented!() } }
impl Copy for Choice {}
impl View for Choice { type V = bool; uninterp spec fn view(&self) -> bool; }
pub broadcast axiom fn axiom_choice_ext(a: Choice, b: Choice)
    ensures (#[trigger] a.view() == #[trigger] b.view()) ==> a == b;
impl Choice {
    #[verifier::external_body]
    pub fn unwrap_u8(&self) -> (o: u8) ensures o == (if self@ { 1u8 } else { 0u8 }) { unimplemented!() }
}
impl vstd::std_specs::convert::FromSpecImpl<Choice> for bool {
    open spec fn obeys_from_spec() -> bool { true }
    open spec fn from_spec(c: Choice) -> bool { c@ }
}
impl From<Choice> for bool { #[verifier::external_body] fn from(c: Choice) -> (o: bool) { unimplemented!() } }
pub uninterp spec fn choice_of_u8(v: u8) -> Choice;
pub broadcast axiom fn axiom_choice_of_u8(v: u8)
    ensures (#[trigger] choice_of_u8(v))@ == (v != 0);
impl vstd::std_specs::convert::FromSpecImpl<u8> for Choice {
    open spec fn obeys_from_spec() -> bool { true }
    open spec fn from_spec(v: u8) -> Choice { choice_of_u8(v) }
}
impl From<u8> for Choice { #[verifier::external_body] fn from(v: u8) -> (o: Choice) { unimplemented!() } }
pub uninterp spec fn choice_and(a: Choice, b: Choice) -> Choice;
pub uninterp spec fn choice_or(a: Choice, b: Choice) -> Choice;
pub uninterp spec fn choice_not(a: Choice) -> Choice;
pub broadcast axiom fn axiom_choice_and(a: Choice, b: Choice) ensures (#[trigger] choice_and(a, b))@ == (a@ && b@);
pub broadcast axiom fn axiom_choice_or(a: Choice, b: Choice) ensures (#[trigger] choice_or(a, b))@ == (a@ || b@);
pub broadcast axiom fn axiom_choice_not(a: Choice) ensures (#[trigger] choice_not(a))@ == !a@;
impl core::ops::BitAnd<Choice> for Choice { type Output = Choice; #[verifier::external_body] fn bitand(self, rhs: Choice) -> (o: Choice) { unimplemented!() } }
impl vstd::std_specs::ops::BitAndSpecImpl<Choice> for Choice {
    open spec fn obeys_bitand_spec() -> bool { true }
    open spec fn bitand_req(self, rhs: Choice) -> bool { true }
    open spec fn bitand_spec(self, rhs: Choice) -> Choice { choice_and(self, rhs) }
}
impl core::ops::BitOr<Choice> for Choice { type Output = Choice; #[verifier::external_body] fn bitor(self, rhs: Choice) -> (o: Choice) { unimplemented!() } }
impl vstd::std_specs::ops::BitOrSpecImpl<Choice> for Choice {
    open spec fn obeys_bitor_spec() -> bool { true }
    open spec fn bitor_req(self, rhs: Choice) -> bool { true }
    open spec fn bitor_spec(self, rhs: Choice) -> Choice { choice_or(self, rhs) }
}
impl core::ops::Not for Choice { type Output = Choice; #[verifier::external_body] fn not(self) -> (o: Choice) { unimplemented!() } }
impl vstd::std_specs::ops::NotSpecImpl for Choice {
    open spec fn obeys_not_spec() -> bool { true }
    open spec fn not_req(self) -> bool { true }
    open spec fn not_spec(self) -> Choice { choice_not(self) }
}

// ----- error text (E5) ------------------------------------------------------------------------
#[verifier::external_body]
pub fn err_text() -> (s: String) { unimplemented!() }
/// debug view (E8): a failing debug assertion is a panic, i.e. an obligation `false`
pub fn debug_assert_failed() requires false { }
/// debug view (E8): the value of a debug-assertion condition that is outside the Verus subset
#[verifier::external_body]
pub fn debug_condition_unknown() -> (b: bool) { unimplemented!() }

// ----- byte containers (E3) ---------------------------------------------------------------------
pub broadcast axiom fn axiom_slice_len(s: &[u8]) ensures #[trigger] s@.len() <= isize::MAX;
pub trait AsRefBytes {
    spec fn bytes(&self) -> Seq<u8>;
    /// ASSUMED [L-STD]: no Rust allocation exceeds isize::MAX bytes
    fn as_ref(&self) -> (r: &[u8]) ensures r@ == self.bytes(), r@.len() <= isize::MAX;
}
impl<'a> AsRefBytes for &'a [u8] {
    open spec fn bytes(&self) -> Seq<u8> { (*self)@ }
    fn as_ref(&self) -> (r: &[u8]) { proof { axiom_slice_len(*self); } *self }
}
impl AsRefBytes for Vec<u8> {
    open spec fn bytes(&self) -> Seq<u8> { self@ }
    fn as_ref(&self) -> (r: &[u8]) { let r = self.as_slice(); proof { axiom_slice_len(r); } r }
}
impl<'a, T: AsRefBytes> AsRefBytes for &'a T {
    open spec fn bytes(&self) -> Seq<u8> { (**self).bytes() }
    fn as_ref(&self) -> (r: &[u8]) { (**self).as_ref() }
}

// ----- Scalar -----------------------------------------------------------------------------------
#[verifier::external_body]
pub struct Scalar { _p: [u8; 0] }
impl Clone for Scalar { #[verifier::external_body] fn clone(&self) -> (o: Self) ensures o == *self { unimplemented!() } }
impl Copy for Scalar {}
pub uninterp spec fn scalar_of(v: int) -> Scalar;
impl Scalar {
    pub uninterp spec fn val(&self) -> int;
    pub open spec fn is_zero_spec(&self) -> bool { self.val() == 0 }
    #[verifier::external_body]
    pub fn is_zero(&self) -> (c: Choice) ensures c@ == (self.val() == 0) { unimplemented!() }
    #[verifier::external_body]
    pub fn ZERO() -> (s: Scalar) ensures s.val() == 0 { unimplemented!() }
    #[verifier::external_body]
    pub fn ONE() -> (s: Scalar) ensures s.val() == 1 { unimplemented!() }
}
pub broadcast axiom fn axiom_scalar_range(s: Scalar) ensures inr(#[trigger] s.val());
pub broadcast axiom fn axiom_scalar_inj(a: Scalar, b: Scalar) ensures (#[trigger] a.val() == #[trigger] b.val()) ==> a == b;
pub broadcast axiom fn axiom_scalar_of(v: int) requires inr(v) ensures (#[trigger] scalar_of(v)).val() == v;
pub open spec fn sc_add(a: Scalar, b: Scalar) -> Scalar { scalar_of(fadd(a.val(), b.val())) }
pub open spec fn sc_mul(a: Scalar, b: Scalar) -> Scalar { scalar_of(fmul(a.val(), b.val())) }
pub open spec fn sc_neg(a: Scalar) -> Scalar { scalar_of(fneg(a.val())) }
pub open spec fn sc_sub(a: Scalar, b: Scalar) -> Scalar { scalar_of(fsub(a.val(), b.val())) }
impl core::ops::Add<Scalar> for Scalar { type Output = Scalar; #[verifier::external_body] fn add(self, rhs: Scalar) -> (o: Scalar) { unimplemented!() } }
impl vstd::std_specs::ops::AddSpecImpl<Scalar> for Scalar {
    open spec fn obeys_add_spec() -> bool { true }
    open spec fn add_req(self, rhs: Scalar) -> bool { true }
    open spec fn add_spec(self, rhs: Scalar) -> Scalar { sc_add(self, rhs) }
}
impl core::ops::Sub<Scalar> for Scalar { type Output = Scalar; #[verifier::external_body] fn sub(self, rhs: Scalar) -> (o: Scalar) { unimplemented!() } }
impl vstd::std_specs::ops::SubSpecImpl<Scalar> for Scalar {
    open spec fn obeys_sub_spec() -> bool { true }
    open spec fn sub_req(self, rhs: Scalar) -> bool { true }
    open spec fn sub_spec(self, rhs: Scalar) -> Scalar { sc_sub(self, rhs) }
}
impl core::ops::Mul<Scalar> for Scalar { type Output = Scalar; #[verifier::external_body] fn mul(self, rhs: Scalar) -> (o: Scalar) { unimplemented!() } }
impl vstd::std_specs::ops::MulSpecImpl<Scalar> for Scalar {
    open spec fn obeys_mul_spec() -> bool { true }
    open spec fn mul_req(self, rhs: Scalar) -> bool { true }
    open spec fn mul_spec(self, rhs: Scalar) -> Scalar { sc_mul(self, rhs) }
}
impl core::ops::Neg for Scalar { type Output = Scalar; #[verifier::external_body] fn neg(self) -> (o: Scalar) { unimplemented!() } }
impl vstd::std_specs::ops::NegSpecImpl for Scalar {
    open spec fn obeys_neg_spec() -> bool { true }
    open spec fn neg_req(self) -> bool { true }
    open spec fn neg_spec(self) -> Scalar { sc_neg(self) }
}
impl PartialEq for Scalar { #[verifier::external_body] fn eq(&self, other: &Scalar) -> (b: bool) ensures b == (*self == *other) { unimplemented!() } }

// ----- subtle::CtOption: ASSUMED [L-SUBTLE] -------------------------------------------------------
#[verifier::external_body]
#[verifier::accept_recursive_types(T)]
pub struct CtOption<T> { _p: core::marker::PhantomData<T> }
impl<T> CtOption<T> {
    pub uninterp spec fn is_some_spec(&self) -> bool;
    pub uninterp spec fn value(&self) -> T;
    #[verifier::external_body]
    pub fn new(value: T, is_some: Choice) -> (r: CtOption<T>) ensures r.value() == value, r.is_some_spec() == is_some@ { unimplemented!() }
    #[verifier::external_body]
    pub fn is_some(&self) -> (c: Choice) ensures c@ == self.is_some_spec() { unimplemented!() }
    #[verifier::external_body]
    pub fn is_none(&self) -> (c: Choice) ensures c@ == !self.is_some_spec() { unimplemented!() }
    /// panics when empty
    #[verifier::external_body]
    pub fn unwrap(self) -> (v: T) requires self.is_some_spec() ensures v == self.value() { unimplemented!() }
    /// subtle applies `f` in both cases (to the stored or to the default value)
    #[verifier::external_body]
    pub fn map<U, F: FnOnce(T) -> U>(self, f: F) -> (r: CtOption<U>)
        requires f.requires((self.value(),)),
        ensures r.is_some_spec() == self.is_some_spec(), f.ensures((self.value(),), r.value())
    { unimplemented!() }
}
pub open spec fn ct_opt<T>(c: CtOption<T>) -> Option<T> { if c.is_some_spec() { Some(c.value()) } else { None } }
impl<T> vstd::std_specs::convert::FromSpecImpl<CtOption<T>> for Option<T> {
    open spec fn obeys_from_spec() -> bool { true }
    open spec fn from_spec(c: CtOption<T>) -> Option<T> { ct_opt(c) }
}
impl<T> From<CtOption<T>> for Option<T> { #[verifier::external_body] fn from(c: CtOption<T>) -> (o: Option<T>) { unimplemented!() } }

// ----- std arrays: ASSUMED [L-STD] ---------------------------------------------------------------------
#[verifier::external_type_specification]
#[verifier::external_body]
pub struct ExTryFromSliceError(core::array::TryFromSliceError);
/// `<[u8; N]>::try_from(&[u8])` (E4b): Ok exactly for a slice of length N, with the same content
#[verifier::external_body]
pub fn u8_array_try_from<const N: usize>(s: &[u8]) -> (r: Result<[u8; N], core::array::TryFromSliceError>)
    ensures (r is Ok) == (s@.len() == N), r is Ok ==> r->Ok_0@ == s@
{ unimplemented!() }
pub assume_specification<T> [<[T]>::reverse] (s: &mut [T]) ensures final(s)@ == old(s)@.reverse();

// ----- scalar encodings: ASSUMED [A-GROUP] ---------------------------------------------------------------
/// canonical 32-byte little-endian encoding (`PrimeField::to_repr`)
pub uninterp spec fn scalar_le(s: Scalar) -> Seq<u8>;
/// `b` is the canonical little-endian encoding of some scalar (value < r)
pub uninterp spec fn le_canonical(b: Seq<u8>) -> bool;
pub uninterp spec fn scalar_of_le(b: Seq<u8>) -> Scalar;
pub open spec fn all_zero(b: Seq<u8>) -> bool { forall|i: int| 0 <= i < b.len() ==> #[trigger] b[i] == 0 }
pub broadcast axiom fn axiom_scalar_le_len(s: Scalar) ensures (#[trigger] scalar_le(s)).len() == 32, le_canonical(scalar_le(s)), scalar_of_le(scalar_le(s)) == s;
pub broadcast axiom fn axiom_scalar_of_le(b: Seq<u8>) requires le_canonical(b) ensures scalar_le(#[trigger] scalar_of_le(b)) == b;
pub broadcast axiom fn axiom_scalar_le_zero(s: Scalar) ensures all_zero(#[trigger] scalar_le(s)) <==> s.val() == 0;
/// what `PrimeField::from_repr` yields for 32 bytes — ASSUMED [A-GROUP], as read from blstrs_plus /
/// bls12_381_plus 0.8.18 (both back ends): the canonical decoding when the bytes are a canonical
/// little-endian encoding, and otherwise the bytes REDUCED modulo r (`from_okm` of the zero-extended
/// big-endian form), rejected only if that is zero.  So `from_repr` does NOT reject non-canonical input.
pub uninterp spec fn scalar_read(b: Seq<u8>) -> Scalar;
pub broadcast axiom fn axiom_scalar_read_canonical(b: Seq<u8>) requires le_canonical(b) ensures #[trigger] scalar_read(b) == scalar_of_le(b);
pub broadcast axiom fn axiom_canonical_len(b: Seq<u8>) ensures #[trigger] le_canonical(b) ==> b.len() == 32;
#[verifier::external_body]
pub struct ScalarRepr { _p: [u8; 0] }
impl View for ScalarRepr { type V = Seq<u8>; uninterp spec fn view(&self) -> Seq<u8>; }
impl AsRefBytes for ScalarRepr {
    open spec fn bytes(&self) -> Seq<u8> { self@ }
    #[verifier::external_body]
    fn as_ref(&self) -> (r: &[u8]) { unimplemented!() }
}
impl ScalarRepr {
    #[verifier::external_body]
    pub fn default() -> (r: ScalarRepr) ensures r@.len() == 32, all_zero(r@) { unimplemented!() }
    #[verifier::external_body]
    pub fn as_mut(&mut self) -> (r: &mut [u8]) ensures r@ == old(self)@, final(self)@ == final(r)@ { unimplemented!() }
}
impl Scalar {
    #[verifier::external_body]
    pub fn to_repr(&self) -> (r: ScalarRepr) ensures r@ == scalar_le(*self) { unimplemented!() }
    /// `None` unless the bytes are a canonical encoding
    #[verifier::external_body]
    pub fn from_repr(repr: ScalarRepr) -> (r: CtOption<Scalar>)
        ensures le_canonical(repr@) ==> r.is_some_spec(), r.is_some_spec() ==> r.value() == scalar_read(repr@),
            !le_canonical(repr@) && r.is_some_spec() ==> r.value().val() != 0
    { unimplemented!() }
    #[verifier::external_body]
    pub fn default() -> (s: Scalar) ensures s.val() == 0 { unimplemented!() }
}
/// ASSUMED, discharged by Kani (unit LEAF_BYTES, complete at N in {0,1,2,32,33}): the constant-time
/// zero test of src/helpers.rs.  Declared here so that Verus callers see only this contract.
pub trait IsZero { fn is_zero(&self) -> (c: Choice); }
impl IsZero for [u8] {
    #[verifier::external_body]
    fn is_zero(&self) -> (c: Choice) ensures c@ == all_zero(self@) { unimplemented!() }
}
impl<const N: usize> IsZero for [u8; N] {
    #[verifier::external_body]
    fn is_zero(&self) -> (c: Choice) ensures c@ == all_zero(self@) { unimplemented!() }
}

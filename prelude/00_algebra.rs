// ---------------------------------------------------------------------------------------------
// prelude/00_algebra.rs — Z_r as an abstract commutative ring without zero divisors.
// `r()` is uninterpreted; the only ASSUMED facts are A-ORDER (r > 1 and no zero divisors).
// Every ring identity below is PROVED from vstd::arithmetic.
// ---------------------------------------------------------------------------------------------
pub uninterp spec fn r() -> int;

// ASSUMED [A-ORDER]: r is a prime > 2^16 (only "r > 1" and "no zero divisors" are used)
pub axiom fn axiom_r_gt_1()
    ensures r() > 65536;

pub axiom fn axiom_no_zero_divisors(a: int, b: int)
    requires 0 <= a < r(), 0 <= b < r(), (a * b) % r() == 0,
    ensures a == 0 || b == 0;

pub open spec fn inr(a: int) -> bool { 0 <= a < r() }

pub closed spec fn fadd(a: int, b: int) -> int { (a + b) % r() }
pub closed spec fn fmul(a: int, b: int) -> int { (a * b) % r() }
pub closed spec fn fneg(a: int) -> int { (r() - a) % r() }
pub open spec fn fsub(a: int, b: int) -> int { fadd(a, fneg(b)) }

pub broadcast proof fn lemma_range_add(a: int, b: int)
    ensures inr(#[trigger] fadd(a, b))
{
    axiom_r_gt_1();
    lemma_mod_bound(a + b, r());
}
pub broadcast proof fn lemma_range_mul(a: int, b: int)
    ensures inr(#[trigger] fmul(a, b))
{
    axiom_r_gt_1();
    lemma_mod_bound(a * b, r());
}
pub broadcast proof fn lemma_range_neg(a: int)
    ensures inr(#[trigger] fneg(a))
{
    axiom_r_gt_1();
    lemma_mod_bound(r() - a, r());
}
pub broadcast proof fn lemma_add_comm(a: int, b: int)
    ensures #[trigger] fadd(a, b) == fadd(b, a)
{}
pub broadcast proof fn lemma_mul_comm(a: int, b: int)
    ensures #[trigger] fmul(a, b) == fmul(b, a)
{
    lemma_mul_is_commutative(a, b);
}
pub broadcast proof fn lemma_add_assoc(a: int, b: int, c: int)
    ensures #[trigger] fadd(fadd(a, b), c) == fadd(a, fadd(b, c))
{
    axiom_r_gt_1();
    lemma_add_mod_noop_right(c, a + b, r());
    lemma_add_mod_noop_right(a, b + c, r());
}
pub broadcast proof fn lemma_mul_assoc(a: int, b: int, c: int)
    ensures #[trigger] fmul(fmul(a, b), c) == fmul(a, fmul(b, c))
{
    axiom_r_gt_1();
    lemma_mul_mod_noop_left(a * b, c, r());
    lemma_mul_mod_noop_right(a, b * c, r());
    lemma_mul_is_associative(a, b, c);
}
pub broadcast proof fn lemma_distrib(a: int, b: int, c: int)
    ensures #[trigger] fmul(a, fadd(b, c)) == fadd(fmul(a, b), fmul(a, c))
{
    axiom_r_gt_1();
    lemma_mul_mod_noop_right(a, b + c, r());
    lemma_mul_is_distributive_add(a, b, c);
    lemma_add_mod_noop(a * b, a * c, r());
}
pub broadcast proof fn lemma_add_zero(a: int)
    requires inr(a),
    ensures #[trigger] fadd(a, 0) == a
{
    lemma_small_mod(a as nat, r() as nat);
}
pub broadcast proof fn lemma_mul_one(a: int)
    requires inr(a),
    ensures #[trigger] fmul(a, 1) == a
{
    lemma_small_mod(a as nat, r() as nat);
}
pub broadcast proof fn lemma_mul_zero(a: int)
    ensures #[trigger] fmul(a, 0) == 0
{
    axiom_r_gt_1();
    lemma_small_mod(0, r() as nat);
}
pub broadcast proof fn lemma_add_neg(a: int)
    ensures #[trigger] fadd(a, fneg(a)) == 0
{
    axiom_r_gt_1();
    lemma_add_mod_noop_right(a, r() - a, r());
    lemma_mod_self_0(r());
}
pub proof fn lemma_neg_zero()
    ensures fneg(0) == 0
{
    axiom_r_gt_1();
    lemma_mod_self_0(r());
}
pub broadcast proof fn lemma_no_zero_div(a: int, b: int)
    requires inr(a), inr(b), #[trigger] fmul(a, b) == 0,
    ensures a == 0 || b == 0
{
    axiom_no_zero_divisors(a, b);
}
/// additive cancellation: a + c == b + c  ==>  a == b
pub proof fn lemma_add_cancel(a: int, b: int, c: int)
    requires inr(a), inr(b), fadd(a, c) == fadd(b, c),
    ensures a == b
{
    broadcast use lemma_add_assoc, lemma_add_neg, lemma_add_zero;
    assert(fadd(fadd(a, c), fneg(c)) == fadd(a, fadd(c, fneg(c))));
    assert(fadd(fadd(b, c), fneg(c)) == fadd(b, fadd(c, fneg(c))));
}
/// a + b == 0  ==>  b == -a
pub proof fn lemma_neg_unique(a: int, b: int)
    requires inr(a), inr(b), fadd(a, b) == 0,
    ensures b == fneg(a)
{
    broadcast use lemma_add_comm, lemma_add_neg, lemma_range_neg;
    assert(fadd(b, a) == fadd(fneg(a), a));
    lemma_add_cancel(b, fneg(a), a);
}
pub proof fn lemma_neg_neg(a: int)
    requires inr(a),
    ensures fneg(fneg(a)) == a
{
    broadcast use lemma_add_comm, lemma_add_neg, lemma_range_neg;
    lemma_neg_unique(fneg(a), a);
}
/// a * (-b) == -(a * b)
pub proof fn lemma_mul_neg(a: int, b: int)
    ensures fmul(a, fneg(b)) == fneg(fmul(a, b))
{
    broadcast use lemma_distrib, lemma_add_neg, lemma_mul_zero, lemma_range_mul, lemma_range_neg;
    assert(fadd(fmul(a, b), fmul(a, fneg(b))) == fmul(a, fadd(b, fneg(b))));
    lemma_neg_unique(fmul(a, b), fmul(a, fneg(b)));
}
/// a - b == 0  <==>  a == b
pub proof fn lemma_sub_zero_iff(a: int, b: int)
    requires inr(a), inr(b),
    ensures (fsub(a, b) == 0) <==> (a == b)
{
    broadcast use lemma_add_neg, lemma_range_neg;
    if fsub(a, b) == 0 {
        assert(fadd(a, fneg(b)) == fadd(b, fneg(b)));
        lemma_add_cancel(a, b, fneg(b));
    }
}
/// multiplicative cancellation: c != 0, a*c == b*c ==> a == b
pub proof fn lemma_mul_cancel(a: int, b: int, c: int)
    requires inr(a), inr(b), inr(c), c != 0, fmul(a, c) == fmul(b, c),
    ensures a == b
{
    broadcast use lemma_add_neg, lemma_range_neg, lemma_range_mul, lemma_range_add, lemma_mul_comm, lemma_distrib;
    // (a - b) * c == a*c - b*c == 0
    lemma_mul_neg(c, b);
    assert(fmul(c, fsub(a, b)) == fadd(fmul(c, a), fmul(c, fneg(b))));
    assert(fmul(c, fsub(a, b)) == 0);
    lemma_no_zero_div(c, fsub(a, b));
    lemma_sub_zero_iff(a, b);
}

// ----- linear forms: with these the solver's own linear arithmetic decides every identity of the additive
// group (commutativity, associativity, signs, subtraction) — no AC matching is involved ----------------
pub broadcast proof fn lemma_add_linear(a: int, b: int)
    requires inr(a), inr(b),
    ensures #[trigger] fadd(a, b) == (if a + b < r() { a + b } else { a + b - r() })
{
    if a + b < r() { lemma_small_mod((a + b) as nat, r() as nat); }
    else {
        lemma_small_mod((a + b - r()) as nat, r() as nat);
        lemma_mod_multiples_vanish(-1, a + b, r());
    }
}
pub broadcast proof fn lemma_neg_linear(a: int)
    requires inr(a),
    ensures #[trigger] fneg(a) == (if a == 0 { 0 } else { r() - a })
{
    if a == 0 { lemma_mod_self_0(r()); } else { lemma_small_mod((r() - a) as nat, r() as nat); }
}
/// the products, seen as atoms by the linear arithmetic, related by: sign, distribution, re-association
pub broadcast proof fn lemma_mul_neg_r(a: int, b: int)
    ensures #[trigger] fmul(a, fneg(b)) == fneg(fmul(a, b))
{ lemma_mul_neg(a, b); }
pub broadcast proof fn lemma_mul_neg_l(a: int, b: int)
    ensures #[trigger] fmul(fneg(a), b) == fneg(fmul(a, b))
{ lemma_mul_comm(fneg(a), b); lemma_mul_neg(b, a); lemma_mul_comm(b, a); }
pub broadcast proof fn lemma_distrib_l(a: int, b: int, c: int)
    ensures #[trigger] fmul(fadd(b, c), a) == fadd(fmul(b, a), fmul(c, a))
{ lemma_mul_comm(fadd(b, c), a); lemma_distrib(a, b, c); lemma_mul_comm(a, b); lemma_mul_comm(a, c); }
/// what a rewritten but equivalent group / scalar expression needs: used inside the extracted functions
pub broadcast group ring_auto {
    lemma_range_add, lemma_range_mul, lemma_range_neg,
    lemma_add_linear, lemma_neg_linear,
    lemma_mul_comm, lemma_mul_neg_r, lemma_mul_neg_l, lemma_distrib, lemma_distrib_l,
    lemma_mul_one, lemma_mul_zero,
}

pub broadcast group ring {
    lemma_range_add, lemma_range_mul, lemma_range_neg,
    lemma_add_comm, lemma_mul_comm,
    lemma_add_zero, lemma_mul_one, lemma_mul_zero, lemma_add_neg,
}
/// small sums do not wrap
pub proof fn lemma_small_add(a: int, b: int)
    requires 0 <= a, 0 <= b, a + b < r(),
    ensures fadd(a, b) == a + b
{
    lemma_small_mod((a + b) as nat, r() as nat);
}
/// 2*a == 0 ==> a == 0  (r is odd: r > 2 and prime)
pub proof fn lemma_double_zero(a: int)
    requires inr(a), fadd(a, a) == 0,
    ensures a == 0
{
    broadcast use lemma_mul_one, lemma_distrib, lemma_mul_comm;
    axiom_r_gt_1();
    lemma_small_add(1, 1);
    assert(fmul(a, fadd(1, 1)) == fadd(fmul(a, 1), fmul(a, 1)));
    assert(fmul(a, 2) == 0);
    lemma_no_zero_div(a, 2);
}
/// -a == a ==> a == 0
pub proof fn lemma_neg_self(a: int)
    requires inr(a), fneg(a) == a,
    ensures a == 0
{
    broadcast use lemma_add_neg;
    assert(fadd(a, fneg(a)) == 0);
    lemma_double_zero(a);
}

// ----- std byte containers: ASSUMED [L-STD] ------------------------------------------------------
pub assume_specification<T: Clone> [<[T]>::to_vec] (s: &[T]) -> (v: Vec<T>)
    ensures v@.len() == s@.len(), forall|i: int| 0 <= i < s@.len() ==> cloned(s@[i], #[trigger] v@[i]);
/// ASSUMED [L-STD-VECKEY]: `Vec<u8>` hashes and compares by content, and (in the verifier's model,
/// which has no observer for capacity) two byte vectors with the same content are the same value
pub broadcast axiom fn axiom_vec_u8_key_model() ensures #[trigger] vstd::std_specs::hash::obeys_key_model::<Vec<u8>>();
pub broadcast axiom fn axiom_vec_u8_ext(a: Vec<u8>, b: Vec<u8>) ensures (#[trigger] a@ == #[trigger] b@) ==> a == b;
/// ASSUMED [L-STD]: a Vec never holds more than usize::MAX elements
pub broadcast axiom fn axiom_vec_len_bound<T>(v: Vec<T>) ensures #[trigger] v@.len() <= usize::MAX;
pub assume_specification<T> [<[T] as AsRef<[T]>>::as_ref] (s: &[T]) -> (r: &[T]) ensures r@ == s@;
/// ASSUMED [L-STD]: a boxed slice is its content
pub assume_specification<T: ?Sized, A: core::alloc::Allocator> [<Box<T, A> as AsRef<T>>::as_ref] (b: &Box<T, A>) -> (r: &T) ensures r == &**b;
pub assume_specification<T, const N: usize> [<Vec<T> as From<[T; N]>>::from] (a: [T; N]) -> (v: Vec<T>) ensures v@ == a@;

/// E15: `X.iter().skip(K).all(CLOSURE)` — ASSUMED [L-STD] semantics of the iterator adapters: the
/// closure is called only on elements at positions >= K (on none for a shorter slice), the result
/// is true iff the closure returned true on every one of them
#[verifier::external_body]
pub fn iter_skip_all<T, F: Fn(&T) -> bool>(s: &[T], k: usize, f: F) -> (b: bool)
    requires forall|i: int| #![trigger s@[i]] k <= i < s@.len() ==> f.requires((&s@[i],)),
    ensures
        b ==> forall|i: int| #![trigger s@[i]] k <= i < s@.len() ==> f.ensures((&s@[i],), true),
        !b ==> exists|i: int| #![trigger s@[i]] k <= i < s@.len() && f.ensures((&s@[i],), false),
{ unimplemented!() }


/// E16: `x[..n].copy_from_slice(y)` / `x[n..].copy_from_slice(y)` — ASSUMED [L-STD] semantics of range
/// indexing and copy_from_slice; the `requires` are exactly the conditions under which std panics
#[verifier::external_body]
pub fn copy_into_prefix(x: &mut Vec<u8>, n: usize, y: &[u8])
    requires n <= old(x)@.len(), y@.len() == n,
    ensures final(x)@ == y@ + old(x)@.subrange(n as int, old(x)@.len() as int),
{ unimplemented!() }
#[verifier::external_body]
pub fn copy_into_suffix(x: &mut Vec<u8>, n: usize, y: &[u8])
    requires n <= old(x)@.len(), y@.len() == old(x)@.len() - n,
    ensures final(x)@ == old(x)@.subrange(0, n as int) + y@,
{ unimplemented!() }

/// `a != b` on byte slices (listed patch E10 in BlsTimeCrypt::unseal: `PartialEq::ne` for slices has no Verus
/// specification) — ASSUMED [L-STD]: slice inequality is inequality of content
#[verifier::external_body]
pub fn bytes_ne(a: &[u8], b: &[u8]) -> (r: bool) ensures r == (a@ != b@) { unimplemented!() }

// ----- PROVED: extensional facts about byte sequences the solver does not find by itself (a rewritten but
// equivalent slicing / concatenation then meets the same contract) -------------------------------------
pub broadcast proof fn lemma_subrange_full<A>(s: Seq<A>)
    ensures #[trigger] s.subrange(0, s.len() as int) == s
{ assert(s.subrange(0, s.len() as int) =~= s); }
pub broadcast proof fn lemma_take_full<A>(s: Seq<A>)
    ensures #[trigger] s.take(s.len() as int) == s
{ assert(s.take(s.len() as int) =~= s); }
pub broadcast proof fn lemma_add_empty_right<A>(s: Seq<A>)
    ensures #[trigger] (s + Seq::<A>::empty()) == s
{ assert(s + Seq::<A>::empty() =~= s); }
pub broadcast proof fn lemma_add_empty_left<A>(s: Seq<A>)
    ensures #[trigger] (Seq::<A>::empty() + s) == s
{ assert(Seq::<A>::empty() + s =~= s); }
pub broadcast proof fn lemma_add_len0_left<A>(s: Seq<A>, t: Seq<A>)
    requires s.len() == 0,
    ensures #[trigger] (s + t) == t
{ assert(s + t =~= t); }
pub broadcast proof fn lemma_add_len0_right<A>(s: Seq<A>, t: Seq<A>)
    requires t.len() == 0,
    ensures #[trigger] (s + t) == s
{ assert(s + t =~= s); }
pub broadcast group seq_ext { lemma_subrange_full, lemma_take_full, lemma_add_empty_right, lemma_add_empty_left, lemma_add_len0_left, lemma_add_len0_right }

// ----- std::time: ASSUMED [A-TIME] ----------------------------------------------------------------
// SystemTime / Duration are integers of milliseconds-or-finer; `now()` is an arbitrary instant
// not before the epoch and less than 2^63 ms after it; `UNIX_EPOCH + d` never overflows for d <= u64::MAX ms (64-bit seconds).
#[verifier::external_body]
pub struct SystemTime { _p: [u8; 0] }
impl Clone for SystemTime { #[verifier::external_body] fn clone(&self) -> (o: Self) ensures o == *self { unimplemented!() } }
impl Copy for SystemTime {}
#[verifier::external_body]
pub struct Duration { _p: [u8; 0] }
#[verifier::external_body]
pub struct SystemTimeError { _p: [u8; 0] }
impl core::fmt::Debug for SystemTimeError { #[verifier::external_body] fn fmt(&self, f: &mut core::fmt::Formatter<'_>) -> core::fmt::Result { unimplemented!() } }
/// `ns` is a value the wall clock returned during this call (established only by `SystemTime::now()`):
/// lets a postcondition speak about "the instant at which the function read the clock"
pub uninterp spec fn clock_reading(ns: int) -> bool;
impl SystemTime {
    /// nanoseconds since the Unix epoch
    pub uninterp spec fn ns(&self) -> int;
    #[verifier::external_body]
    pub fn now() -> (t: SystemTime) ensures t.ns() >= 0, t.ns() < 0x8000_0000_0000_0000 * 1000000, clock_reading(t.ns()) { unimplemented!() }
    /// Err exactly when `earlier` is later than self
    #[verifier::external_body]
    pub fn duration_since(&self, earlier: SystemTime) -> (r: Result<Duration, SystemTimeError>)
        ensures (r is Ok) == (earlier.ns() <= self.ns()), r is Ok ==> r->Ok_0.ns() == self.ns() - earlier.ns()
    { unimplemented!() }
}
impl Duration {
    pub uninterp spec fn ns(&self) -> int;
    #[verifier::external_body]
    pub fn from_millis(ms: u64) -> (d: Duration) ensures d.ns() == ms * 1000000 { unimplemented!() }
    #[verifier::external_body]
    pub fn as_millis(&self) -> (m: u128) ensures m == self.ns() / 1000000 { unimplemented!() }
}
pub broadcast axiom fn axiom_duration_nonneg(d: Duration) ensures #[trigger] d.ns() >= 0;
#[verifier::external_body]
pub fn UNIX_EPOCH() -> (t: SystemTime) ensures t.ns() == 0 { unimplemented!() }
pub uninterp spec fn systime_of(ns: int) -> SystemTime;
pub broadcast axiom fn axiom_systime_of(ns: int) ensures (#[trigger] systime_of(ns)).ns() == ns;
impl core::ops::Add<Duration> for SystemTime { type Output = SystemTime; #[verifier::external_body] fn add(self, rhs: Duration) -> (o: SystemTime) { unimplemented!() } }
impl vstd::std_specs::ops::AddSpecImpl<Duration> for SystemTime {
    open spec fn obeys_add_spec() -> bool { true }
    /// panics on overflow of the platform representation: cannot happen for epoch + (<= u64::MAX ms)
    open spec fn add_req(self, rhs: Duration) -> bool { self.ns() + rhs.ns() <= 9223372036854775807int * 1000000000 }
    open spec fn add_spec(self, rhs: Duration) -> SystemTime { systime_of(self.ns() + rhs.ns()) }
}
/// little-endian encoding of a u64 (to_le_bytes), uninterpreted but injective
pub uninterp spec fn le64(t: u64) -> Seq<u8>;
pub broadcast axiom fn axiom_le64(t: u64, u: u64) ensures (#[trigger] le64(t) == #[trigger] le64(u)) ==> t == u;
pub broadcast axiom fn axiom_le64_len(t: u64) ensures (#[trigger] le64(t)).len() == 8;

/// E16: `t.to_le_bytes()` for t: u64 — ASSUMED [L-STD]
#[verifier::external_body]
pub fn u64_to_le_bytes(t: u64) -> (r: [u8; 8]) ensures r@ == le64(t) { unimplemented!() }

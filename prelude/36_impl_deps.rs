// ---------------------------------------------------------------------------------------------
// prelude/36_impl_deps.rs — ASSUMED contracts of what src/impls/g1.rs, g2.rs and the
// dependency-facing part of src/helpers.rs call in the curve / hash crates.  [A-PAIRING] [H-*]
// ---------------------------------------------------------------------------------------------
#[verifier::external_body]
pub struct G1Affine { _p: [u8; 0] }
#[verifier::external_body]
pub struct G2Affine { _p: [u8; 0] }
#[verifier::external_body]
pub struct G2Prepared { _p: [u8; 0] }
#[verifier::external_body]
pub struct MillerLoopResult { _p: [u8; 0] }
impl G1Affine { pub uninterp spec fn dl(&self) -> int; }
impl G2Affine { pub uninterp spec fn dl(&self) -> int; }
impl G2Prepared { pub uninterp spec fn dl(&self) -> int; }
impl MillerLoopResult { pub uninterp spec fn dl(&self) -> int; }

/// which message expander / hash a generic dependency call was instantiated with
pub trait HashId { spec fn hid() -> int; }
pub trait ExpandMsg { spec fn xid() -> int; }
pub mod sha2 {
    use vstd::prelude::*;
    #[verifier::external_body]
    pub struct Sha256 { _p: [u8; 0] }
    #[verifier::external_body]
    pub struct Sha512 { _p: [u8; 0] }
}
pub mod sha3 {
    use vstd::prelude::*;
    #[verifier::external_body]
    pub struct Shake128 { _p: [u8; 0] }
    #[verifier::external_body]
    pub struct Shake256 { _p: [u8; 0] }
}
impl HashId for sha2::Sha256 { open spec fn hid() -> int { 256 } }
impl HashId for sha2::Sha512 { open spec fn hid() -> int { 512 } }
impl HashId for sha3::Shake128 { open spec fn hid() -> int { 1128 } }
impl HashId for sha3::Shake256 { open spec fn hid() -> int { 1256 } }
#[verifier::external_body]
#[verifier::reject_recursive_types(H)]
pub struct ExpandMsgXmd<H> { _p: core::marker::PhantomData<H> }
#[verifier::external_body]
#[verifier::reject_recursive_types(H)]
pub struct ExpandMsgXof<H> { _p: core::marker::PhantomData<H> }
impl<H: HashId> ExpandMsg for ExpandMsgXmd<H> { open spec fn xid() -> int { 10000 + H::hid() } }
impl<H: HashId> ExpandMsg for ExpandMsgXof<H> { open spec fn xid() -> int { 20000 + H::hid() } }
/// the IETF suites use expand_message_xmd with SHA-256
pub open spec fn XMD_SHA256() -> int { 10256 }

/// hash_to_curve (RFC 9380 SSWU, random oracle variant) as an uninterpreted function of
/// (expander, message, tag) — one function per group
pub uninterp spec fn g1_h2c(x: int, m: Seq<u8>, d: Seq<u8>) -> G1Projective;
pub uninterp spec fn g2_h2c(x: int, m: Seq<u8>, d: Seq<u8>) -> G2Projective;

impl G1Projective {
    #[verifier::external_body]
    pub fn to_affine(&self) -> (a: G1Affine) ensures a.dl() == self.dl() { unimplemented!() }
    #[verifier::external_body]
    pub fn hash<X: ExpandMsg>(m: &[u8], dst: &[u8]) -> (r: G1Projective) ensures r == g1_h2c(X::xid(), m@, dst@) { unimplemented!() }
}
impl G2Projective {
    #[verifier::external_body]
    pub fn to_affine(&self) -> (a: G2Affine) ensures a.dl() == self.dl() { unimplemented!() }
    #[verifier::external_body]
    pub fn hash<X: ExpandMsg>(m: &[u8], dst: &[u8]) -> (r: G2Projective) ensures r == g2_h2c(X::xid(), m@, dst@) { unimplemented!() }
}
pub uninterp spec fn g2prep_of(a: G2Affine) -> G2Prepared;
pub broadcast axiom fn axiom_g2prep(a: G2Affine) ensures (#[trigger] g2prep_of(a)).dl() == a.dl();
impl vstd::std_specs::convert::FromSpecImpl<G2Affine> for G2Prepared {
    open spec fn obeys_from_spec() -> bool { true }
    open spec fn from_spec(a: G2Affine) -> G2Prepared { g2prep_of(a) }
}
impl From<G2Affine> for G2Prepared { #[verifier::external_body] fn from(a: G2Affine) -> (o: G2Prepared) { unimplemented!() } }

/// sum_i dl(a_i) * dl(b_i) over the Miller-loop terms
pub open spec fn mm_sum(t: Seq<(&G1Affine, &G2Prepared)>) -> int
    decreases t.len()
{
    if t.len() == 0 { 0 } else { fadd(mm_sum(t.drop_last()), fmul(t.last().0.dl(), t.last().1.dl())) }
}
/// ASSUMED [A-PAIRING]: bilinearity and non-degeneracy in discrete-log form
#[verifier::external_body]
pub fn multi_miller_loop(terms: &[(&G1Affine, &G2Prepared)]) -> (m: MillerLoopResult)
    ensures m.dl() == mm_sum(terms@)
{ unimplemented!() }
impl MillerLoopResult {
    #[verifier::external_body]
    pub fn final_exponentiation(&self) -> (g: Gt) ensures g.dl() == self.dl() { unimplemented!() }
}

// ----- HKDF (RFC 5869) [H-HKDF]: uninterpreted extract / expand, functional consistency only ------
pub uninterp spec fn hkdf_extract(h: int, salt: Option<Seq<u8>>, ikm: Seq<u8>) -> Seq<u8>;
pub uninterp spec fn hkdf_expand(h: int, prk: Seq<u8>, info: Seq<u8>, len: nat) -> Seq<u8>;
pub uninterp spec fn scalar_from_okm(okm: Seq<u8>) -> Scalar;
pub open spec fn opt_view(o: Option<&[u8]>) -> Option<Seq<u8>> { match o { Some(s) => Some(s@), None => None } }
pub mod hkdf {
    use vstd::prelude::*;
    use super::*;
    #[verifier::external_body]
    #[verifier::reject_recursive_types(H)]
    pub struct HkdfExtract<H> { _p: core::marker::PhantomData<H> }
    #[verifier::external_body]
    #[verifier::reject_recursive_types(H)]
    pub struct Hkdf<H> { _p: core::marker::PhantomData<H> }
    #[verifier::external_body]
    pub struct Prk { _p: [u8; 0] }
    #[verifier::external_body]
    pub struct InvalidLength { _p: [u8; 0] }
    impl core::fmt::Debug for InvalidLength { #[verifier::external_body] fn fmt(&self, f: &mut core::fmt::Formatter<'_>) -> core::fmt::Result { unimplemented!() } }
    impl<H: HashId> HkdfExtract<H> {
        pub uninterp spec fn salt(&self) -> Option<Seq<u8>>;
        pub uninterp spec fn ikm(&self) -> Seq<u8>;
        #[verifier::external_body]
        pub fn new(salt: Option<&[u8]>) -> (e: Self) ensures e.salt() == opt_view(salt), e.ikm() == Seq::<u8>::empty() { unimplemented!() }
        #[verifier::external_body]
        pub fn input_ikm(&mut self, ikm: &[u8]) ensures final(self).salt() == old(self).salt(), final(self).ikm() == old(self).ikm() + ikm@ { unimplemented!() }
        #[verifier::external_body]
        pub fn finalize(self) -> (r: (Prk, Hkdf<H>)) ensures r.1.prk() == hkdf_extract(H::hid(), self.salt(), self.ikm()) { unimplemented!() }
    }
    impl<H: HashId> Hkdf<H> {
        pub uninterp spec fn prk(&self) -> Seq<u8>;
        #[verifier::external_body]
        pub fn expand<const N: usize, const M: usize>(&self, info: &[u8; N], okm: &mut [u8; M]) -> (r: Result<(), InvalidLength>)
            ensures M <= 255 * 32 ==> r is Ok, r is Ok ==> final(okm)@ == hkdf_expand(H::hid(), self.prk(), info@, M as nat)
        { unimplemented!() }
    }
}
impl Scalar {
    #[verifier::external_body]
    pub fn from_okm(okm: &[u8; 48]) -> (s: Scalar) ensures s == scalar_from_okm(okm@) { unimplemented!() }
    #[verifier::external_body]
    pub fn from_bytes_wide(b: &[u8; 64]) -> (s: Scalar) ensures s == scalar_from_wide(b@) { unimplemented!() }
}
pub uninterp spec fn scalar_from_wide(b: Seq<u8>) -> Scalar;

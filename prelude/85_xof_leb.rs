// ----- SHAKE128 / SHA-256 [H-XOF], uint-zigzag LEB128 [L-ZIGZAG]: ASSUMED ------------------------------
/// SHAKE128(input) truncated to n bytes
pub uninterp spec fn shake128(input: Seq<u8>, n: nat) -> Seq<u8>;
pub broadcast axiom fn axiom_shake_len(input: Seq<u8>, n: nat) ensures (#[trigger] shake128(input, n)).len() == n;
pub uninterp spec fn sha256(input: Seq<u8>) -> Seq<u8>;
pub broadcast axiom fn axiom_sha256_len(input: Seq<u8>) ensures (#[trigger] sha256(input)).len() == 32;
#[verifier::external_body]
pub struct Shake128 { _p: [u8; 0] }
#[verifier::external_body]
pub struct Shake128Reader { _p: [u8; 0] }
impl Shake128 {
    /// everything absorbed so far
    pub uninterp spec fn absorbed(&self) -> Seq<u8>;
    #[verifier::external_body]
    pub fn default() -> (h: Shake128) ensures h.absorbed() == Seq::<u8>::empty() { unimplemented!() }
    #[verifier::external_body]
    pub fn update(&mut self, data: &[u8]) ensures final(self).absorbed() == old(self).absorbed() + data@ { unimplemented!() }
    #[verifier::external_body]
    pub fn finalize_xof(self) -> (r: Shake128Reader) ensures r.input() == self.absorbed(), r.pos() == 0 { unimplemented!() }
}
impl Shake128Reader {
    pub uninterp spec fn input(&self) -> Seq<u8>;
    pub uninterp spec fn pos(&self) -> nat;
    /// fills the whole buffer with the next bytes of the output stream
    #[verifier::external_body]
    pub fn read(&mut self, buffer: &mut Vec<u8>)
        ensures final(buffer)@ == shake128(old(self).input(), old(self).pos() + old(buffer)@.len()).subrange(old(self).pos() as int, (old(self).pos() + old(buffer)@.len()) as int),
                final(self).input() == old(self).input(), final(self).pos() == old(self).pos() + old(buffer)@.len()
    { unimplemented!() }
}

/// LEB128 (uint-zigzag `Uint`): the assumed facts are checked on the real crate by Kani (unit DEP_ZIGZAG)
pub uninterp spec fn leb(n: nat) -> Seq<u8>;
/// length of the complete varint at the start of `s`, if there is one
pub uninterp spec fn leb_peek(s: Seq<u8>) -> Option<nat>;
pub uninterp spec fn leb_decode(s: Seq<u8>) -> nat;
pub broadcast axiom fn axiom_leb_len(n: nat) ensures 1 <= (#[trigger] leb(n)).len() <= 19;
pub broadcast axiom fn axiom_leb_peek_bound(s: Seq<u8>) ensures (#[trigger] leb_peek(s)) is Some ==> 1 <= leb_peek(s)->Some_0 <= s.len() && leb_peek(s)->Some_0 <= 19;
/// a varint followed by anything is found again, with its value
pub broadcast axiom fn axiom_leb_round_trip(n: nat, rest: Seq<u8>)
    requires n < 0x1_0000_0000_0000_0000,
    ensures (#[trigger] leb_peek(leb(n) + rest)) == Some(leb(n).len()), leb_decode(leb(n)) == n;
pub mod uint_zigzag {
    use vstd::prelude::*;
    use super::*;
    pub struct Uint(pub u128);
    #[verifier::external_body]
    pub struct UintError { _p: [u8; 0] }
    impl core::fmt::Debug for UintError { #[verifier::external_body] fn fmt(&self, f: &mut core::fmt::Formatter<'_>) -> core::fmt::Result { unimplemented!() } }
    impl Uint {
        #[verifier::external_body]
        pub fn to_vec(&self) -> (v: Vec<u8>) ensures v@ == leb(self.0 as nat) { unimplemented!() }
        #[verifier::external_body]
        pub fn peek(s: &[u8]) -> (r: Option<usize>) ensures (r is Some) == (leb_peek(s@) is Some), r is Some ==> r->Some_0 == leb_peek(s@)->Some_0 { unimplemented!() }
    }
    impl vstd::std_specs::convert::FromSpecImpl<usize> for Uint {
        open spec fn obeys_from_spec() -> bool { true }
        open spec fn from_spec(v: usize) -> Uint { Uint(v as u128) }
    }
    impl From<usize> for Uint { #[verifier::external_body] fn from(v: usize) -> (o: Uint) { unimplemented!() } }
    impl<'a> vstd::std_specs::convert::TryFromSpecImpl<&'a [u8]> for Uint {
        open spec fn obeys_try_from_spec() -> bool { false }
        open spec fn try_from_spec(v: &'a [u8]) -> Result<Uint, UintError> { arbitrary() }
    }
    impl<'a> TryFrom<&'a [u8]> for Uint {
        type Error = UintError;
        /// succeeds exactly on a complete varint (peek says so) and returns its value
        #[verifier::external_body]
        fn try_from(s: &'a [u8]) -> (r: Result<Uint, UintError>)
            ensures (leb_peek(s@) == Some(s@.len())) ==> r is Ok && r->Ok_0.0 == leb_decode(s@)
        { unimplemented!() }
    }
}
/// ASSUMED [L-ZIGZAG]: the prefix that `peek` delimits is itself a complete varint
pub broadcast axiom fn axiom_leb_prefix(s: Seq<u8>)
    ensures (#[trigger] leb_peek(s)) is Some ==> leb_peek(s.subrange(0, leb_peek(s)->Some_0 as int)) == Some(leb_peek(s)->Some_0) && leb_decode(s.subrange(0, leb_peek(s)->Some_0 as int)) == leb_decode(s);
/// constant-time select on scalars [L-SUBTLE]
pub struct ConditionallySelectable {}
impl ConditionallySelectable {
    #[verifier::external_body]
    pub fn conditional_select(a: &Scalar, b: &Scalar, c: Choice) -> (r: Scalar) ensures r == (if c@ { *b } else { *a }) { unimplemented!() }
}

// ----- SHA-256 (sha2::Sha256 with the Digest / FixedOutput traits) [H-HASH] -------------------------
#[verifier::external_body]
pub struct Sha256 { _p: [u8; 0] }
impl Sha256 {
    pub uninterp spec fn absorbed(&self) -> Seq<u8>;
    #[verifier::external_body]
    pub fn default() -> (h: Sha256) ensures h.absorbed() == Seq::<u8>::empty() { unimplemented!() }
    #[verifier::external_body]
    pub fn update(hasher: &mut Sha256, data: &[u8]) ensures final(hasher).absorbed() == old(hasher).absorbed() + data@ { unimplemented!() }
    /// the 32-byte digest (a GenericArray in the real crate; modelled as [u8; 32])
    #[verifier::external_body]
    pub fn finalize_fixed(self) -> (o: [u8; 32]) ensures o@ == sha256(self.absorbed()) { unimplemented!() }
    #[verifier::external_body]
    pub fn digest<B: AsRefBytes>(data: B) -> (o: [u8; 32]) ensures o@ == sha256(data.bytes()) { unimplemented!() }
}
/// E3d: `a.iter().copied().chain(b.iter().copied()).collect::<Vec<u8>>()`
#[verifier::external_body]
pub fn concat_bytes<A: AsRefBytes, B: AsRefBytes>(a: A, b: B) -> (r: Vec<u8>) ensures r@ == a.bytes() + b.bytes() { unimplemented!() }

//! Kani unit DEP_SHARE: the accessor facts the Verus units ASSUME (prelude/60_shares.rs, L-VSSS) about
//! vsss-rs' `Share for [u8; L]`, checked on the real dependency at the two sizes blsful uses
//! (49 = 1 + 48 and 97 = 1 + 96), and — on the text extracted unchanged from /repo/src/lib.rs —
//! that blsful's `InnerPointShareG1` / `InnerPointShareG2` containers delegate to exactly that.
#![allow(dead_code, unused_imports)]
use subtle::Choice;
use vsss_rs::{Share, VsssResult};
// the type definitions of src/lib.rs without their serde / zeroize derives (E6) and with the
// `Default` impls written out as in the source (`Self([0u8; N])`)
#[derive(Copy, Clone, Debug, PartialEq, Eq, Hash, Ord, PartialOrd, zeroize::Zeroize)]
pub struct InnerPointShareG1(pub [u8; 49]);
#[derive(Copy, Clone, Debug, PartialEq, Eq, Hash, Ord, PartialOrd, zeroize::Zeroize)]
pub struct InnerPointShareG2(pub [u8; 97]);
impl Default for InnerPointShareG1 { fn default() -> Self { Self([0u8; 49]) } }
impl Default for InnerPointShareG2 { fn default() -> Self { Self([0u8; 97]) } }
mod extracted;

#[cfg(kani)]
mod harness {
    use super::*;

    fn check_array<const L: usize>() {
        let mut s: [u8; L] = kani::any();
        let id0 = s[0];
        assert!(Share::identifier(&s) == id0, "identifier is byte 0");
        let v = s.value_vec();
        assert!(v.len() == L - 1, "the value has L-1 bytes");
        let i: usize = kani::any(); kani::assume(i < L - 1);
        assert!(v[i] == s[i + 1], "the value is bytes 1..");
        // writing the identifier changes byte 0 only
        let nid: u8 = kani::any();
        let before = s;
        *s.identifier_mut() = nid;
        assert!(s[0] == nid && s[i + 1] == before[i + 1], "identifier_mut writes byte 0 only");
        // value_mut with exactly L-1 bytes stores them and keeps the identifier; shorter input is an error
        let buf: [u8; L] = kani::any();
        let r = s.value_mut(&buf[..L - 1]);
        assert!(r.is_ok() && s[0] == nid && s[i + 1] == buf[i], "value_mut stores L-1 bytes, identifier kept");
        let mut t: [u8; L] = kani::any();
        let short: usize = kani::any(); kani::assume(short < L - 1);
        assert!(t.value_mut(&buf[..short]).is_err(), "a shorter value is refused");
        let e = <[u8; L] as Share>::empty_share_with_capacity(0);
        assert!(e[0] == 0 && e[i + 1] == 0, "the empty share is all zero");
    }
    #[kani::proof] #[kani::unwind(51)] fn array_share_49() { check_array::<49>() }
    #[kani::proof] #[kani::unwind(99)] fn array_share_97() { check_array::<97>() }

    /// blsful's containers behave as their inner array share
    #[kani::proof] #[kani::unwind(51)]
    fn inner_point_share_g1_delegates() {
        let a: [u8; 49] = kani::any();
        let mut s = InnerPointShareG1(a);
        assert!(s.identifier() == a[0]);
        let v = s.value_vec(); let i: usize = kani::any(); kani::assume(i < 48);
        assert!(v.len() == 48 && v[i] == a[i + 1]);
        let nid: u8 = kani::any(); *s.identifier_mut() = nid;
        let buf: [u8; 48] = kani::any();
        assert!(s.value_mut(&buf).is_ok() && s.0[0] == nid && s.0[i + 1] == buf[i]);
        let e = InnerPointShareG1::empty_share_with_capacity(48);
        assert!(e.0[0] == 0 && e.0[i + 1] == 0);
    }
    #[kani::proof] #[kani::unwind(99)]
    fn inner_point_share_g2_delegates() {
        let a: [u8; 97] = kani::any();
        let mut s = InnerPointShareG2(a);
        assert!(s.identifier() == a[0]);
        let v = s.value_vec(); let i: usize = kani::any(); kani::assume(i < 96);
        assert!(v.len() == 96 && v[i] == a[i + 1]);
        let nid: u8 = kani::any(); *s.identifier_mut() = nid;
        let buf: [u8; 96] = kani::any();
        assert!(s.value_mut(&buf).is_ok() && s.0[0] == nid && s.0[i + 1] == buf[i]);
        let e = InnerPointShareG2::empty_share_with_capacity(96);
        assert!(e.0[0] == 0 && e.0[i + 1] == 0);
    }
}

//! Kani unit LEAF_BYTES: byte-level leaf functions of src/helpers.rs at their real sizes.
//! `extracted.rs` is generated on every run from /repo (original text, unchanged).
#![allow(dead_code, unused_imports)]
use subtle::Choice;
mod extracted;
pub use extracted::*;

#[cfg(kani)]
mod harness {
    use super::*;

    /// is_zero() <=> every byte is zero, and the call never panics / overflows (checked build),
    /// for a fully symbolic array of the real size N.  Complete at that size (unwind N+1).
    fn check_is_zero<const N: usize>() {
        let a: [u8; N] = kani::any();
        let z: bool = a[..].is_zero().into();
        let mut all = true;
        let mut i = 0;
        while i < N {
            if a[i] != 0 { all = false; }
            i += 1;
        }
        // two directions, reported separately: (a) the all-zero array IS detected (what C04/C16 rest on),
        // (b) nothing else is reported as zero (what C01/C15 rest on: valid keys are not refused)
        assert!(!all || z, "is_zero detects zero: the all-zero array must be reported as zero");
        assert!(!z || all, "is_zero only zero: a non-zero array must not be reported as zero");
    }
    #[kani::proof] #[kani::unwind(2)] fn is_zero_n0() { check_is_zero::<0>() }
    #[kani::proof] #[kani::unwind(3)] fn is_zero_n1() { check_is_zero::<1>() }
    #[kani::proof] #[kani::unwind(4)] fn is_zero_n2() { check_is_zero::<2>() }
    #[kani::proof] #[kani::unwind(34)] fn is_zero_n32() { check_is_zero::<32>() }
    #[kani::proof] #[kani::unwind(35)] fn is_zero_n33() { check_is_zero::<33>() }

    /// byte_xor: same length, element-wise xor, involution (N = 32 is the minimum payload size of
    /// both ciphertext formats; 40 exercises the longer-than-32 path)
    fn check_byte_xor<const N: usize>() {
        let a: [u8; N] = kani::any();
        let b: [u8; N] = kani::any();
        let o = byte_xor(&a, &b);
        assert!(o.len() == N);
        let mut i = 0;
        while i < N {
            assert!(o[i] == a[i] ^ b[i]);
            i += 1;
        }
    }
    #[kani::proof] #[kani::unwind(2)] fn byte_xor_n0() { check_byte_xor::<0>() }
    #[kani::proof] #[kani::unwind(6)] fn byte_xor_n4() { check_byte_xor::<4>() }
}

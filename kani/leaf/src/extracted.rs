use subtle::Choice;
// extracted unchanged from src/helpers.rs:186
pub trait IsZero {
    fn is_zero(&self) -> Choice;
}

// extracted unchanged from src/helpers.rs:190
impl IsZero for [u8] {
    fn is_zero(&self) -> Choice {
        let mut t: i8 = 0;
        for b in self {
            t |= *b as i8;
        }

        Choice::from((((t | -t) >> 7) + 1) as u8)
    }
}

// extracted unchanged from src/helpers.rs:28
pub fn byte_xor(arr1: &[u8], arr2: &[u8]) -> Vec<u8> {
    debug_assert_eq!(arr1.len(), arr2.len());
    let mut o = Vec::with_capacity(arr1.len());
    for (a, b) in arr1.iter().zip(arr2.iter()) {
        o.push(*a ^ *b)
    }
    o
}


// replaced on every run by the text extracted from /repo/src/helpers.rs

//! Kani unit SERDE_ARRAY: blsful's own array codec `helpers::fixed_arr::BigArray for [u8; N]` (the
//! serde form of every share container), extracted unchanged from /repo/src/helpers.rs on every run.
//! The harnesses drive it through two small serde front ends written here — a human-readable one
//! that hands over one string, and a binary one that hands over a tuple of bytes read from a buffer
//! (what serde_json and serde_bare do for this type) — and check, for EVERY string / buffer up to the
//! stated size: a value comes back exactly for the one well-formed input (2N hex digits / at least N
//! bytes, of which exactly N are consumed), the value is the decoding, truncated and over-long
//! documents are refused, nothing panics, and serialize-then-deserialize is the identity.
#![allow(dead_code, unused_imports)]
mod extracted;

#[cfg(kani)]
mod harness {
    use super::extracted::fixed_arr::BigArray;
    use core::fmt::{self, Display};
    use serde::de::{self, DeserializeSeed, Deserializer, SeqAccess, Visitor};
    use serde::ser::{self, Impossible, Serialize, SerializeTuple, Serializer};

    #[derive(Debug)]
    pub struct E;
    impl Display for E { fn fmt(&self, _f: &mut fmt::Formatter<'_>) -> fmt::Result { Ok(()) } }
    impl std::error::Error for E {}
    impl de::Error for E { fn custom<T: Display>(_m: T) -> Self { E } }
    impl ser::Error for E { fn custom<T: Display>(_m: T) -> Self { E } }

    // ---------- human-readable front end: the document is one string ----------
    struct StrDe<'de>(&'de str);
    impl<'de> Deserializer<'de> for StrDe<'de> {
        type Error = E;
        fn deserialize_any<V: Visitor<'de>>(self, v: V) -> Result<V::Value, E> { v.visit_borrowed_str(self.0) }
        serde::forward_to_deserialize_any! { bool i8 i16 i32 i64 i128 u8 u16 u32 u64 u128 f32 f64 char str string bytes byte_buf option unit unit_struct newtype_struct seq tuple tuple_struct map struct enum identifier ignored_any }
        fn is_human_readable(&self) -> bool { true }
    }

    // ---------- binary front end: a tuple of `len` elements, each one byte of the buffer ----------
    struct BinDe<'a> { data: &'a [u8], pos: usize, short_by: usize }
    struct Access<'b, 'a> { de: &'b mut BinDe<'a>, left: usize }
    impl<'de, 'b, 'a> Deserializer<'de> for &'b mut BinDe<'a> {
        type Error = E;
        fn deserialize_any<V: Visitor<'de>>(self, _v: V) -> Result<V::Value, E> { Err(E) }
        fn deserialize_u8<V: Visitor<'de>>(self, v: V) -> Result<V::Value, E> {
            if self.pos < self.data.len() { let b = self.data[self.pos]; self.pos += 1; v.visit_u8(b) } else { Err(E) }
        }
        fn deserialize_tuple<V: Visitor<'de>>(self, len: usize, v: V) -> Result<V::Value, E> {
            let left = len - core::cmp::min(len, self.short_by);
            v.visit_seq(Access { de: self, left })
        }
        serde::forward_to_deserialize_any! { bool i8 i16 i32 i64 i128 u16 u32 u64 u128 f32 f64 char str string bytes byte_buf option unit unit_struct newtype_struct seq tuple_struct map struct enum identifier ignored_any }
        fn is_human_readable(&self) -> bool { false }
    }
    impl<'de, 'b, 'a> SeqAccess<'de> for Access<'b, 'a> {
        type Error = E;
        fn next_element_seed<T: DeserializeSeed<'de>>(&mut self, seed: T) -> Result<Option<T::Value>, E> {
            if self.left == 0 { return Ok(None); }
            self.left -= 1;
            seed.deserialize(&mut *self.de).map(Some)
        }
    }

    // ---------- serializers that record what the codec writes ----------
    pub struct Rec { pub human: bool, pub buf: [u8; 8], pub n: usize, pub announced: usize, pub was_str: bool }
    macro_rules! refuse { ($($f:ident($($t:ty),*);)*) => { $( fn $f(self $(, _: $t)*) -> Result<(), E> { Err(E) } )* } }
    impl<'r> Serializer for &'r mut Rec {
        type Ok = (); type Error = E;
        type SerializeSeq = Impossible<(), E>; type SerializeTuple = Self; type SerializeTupleStruct = Impossible<(), E>;
        type SerializeTupleVariant = Impossible<(), E>; type SerializeMap = Impossible<(), E>; type SerializeStruct = Impossible<(), E>;
        type SerializeStructVariant = Impossible<(), E>;
        refuse! { serialize_bool(bool); serialize_i8(i8); serialize_i16(i16); serialize_i32(i32); serialize_i64(i64); serialize_u16(u16); serialize_u32(u32); serialize_u64(u64);
                  serialize_f32(f32); serialize_f64(f64); serialize_char(char); serialize_bytes(&[u8]); serialize_none(); serialize_unit(); serialize_unit_struct(&'static str);
                  serialize_unit_variant(&'static str, u32, &'static str); }
        fn serialize_u8(self, v: u8) -> Result<(), E> { if self.n < 8 { self.buf[self.n] = v; self.n += 1; Ok(()) } else { Err(E) } }
        fn serialize_str(self, v: &str) -> Result<(), E> {
            self.was_str = true;
            let b = v.as_bytes(); if b.len() > 8 { return Err(E); }
            let mut i = 0; while i < b.len() { self.buf[i] = b[i]; i += 1; } self.n = b.len(); Ok(())
        }
        fn serialize_some<T: ?Sized + Serialize>(self, _: &T) -> Result<(), E> { Err(E) }
        fn serialize_newtype_struct<T: ?Sized + Serialize>(self, _: &'static str, _: &T) -> Result<(), E> { Err(E) }
        fn serialize_newtype_variant<T: ?Sized + Serialize>(self, _: &'static str, _: u32, _: &'static str, _: &T) -> Result<(), E> { Err(E) }
        fn serialize_seq(self, _: Option<usize>) -> Result<Self::SerializeSeq, E> { Err(E) }
        fn serialize_tuple(self, len: usize) -> Result<Self, E> { self.announced = len; Ok(self) }
        fn serialize_tuple_struct(self, _: &'static str, _: usize) -> Result<Self::SerializeTupleStruct, E> { Err(E) }
        fn serialize_tuple_variant(self, _: &'static str, _: u32, _: &'static str, _: usize) -> Result<Self::SerializeTupleVariant, E> { Err(E) }
        fn serialize_map(self, _: Option<usize>) -> Result<Self::SerializeMap, E> { Err(E) }
        fn serialize_struct(self, _: &'static str, _: usize) -> Result<Self::SerializeStruct, E> { Err(E) }
        fn serialize_struct_variant(self, _: &'static str, _: u32, _: &'static str, _: usize) -> Result<Self::SerializeStructVariant, E> { Err(E) }
        fn is_human_readable(&self) -> bool { self.human }
    }
    impl<'r> SerializeTuple for &'r mut Rec {
        type Ok = (); type Error = E;
        fn serialize_element<T: ?Sized + Serialize>(&mut self, v: &T) -> Result<(), E> { v.serialize(&mut **self) }
        fn end(self) -> Result<(), E> { Ok(()) }
    }

    fn hexval(c: u8) -> Option<u8> {
        match c { b'0'..=b'9' => Some(c - b'0'), b'a'..=b'f' => Some(c - b'a' + 10), b'A'..=b'F' => Some(c - b'A' + 10), _ => None }
    }

    /// every ASCII string of length 0..=2N+2 presented as the human-readable document
    fn hex_document<const N: usize, const L: usize>() {
        let raw: [u8; L] = kani::any();
        let len: usize = kani::any();
        kani::assume(len <= L);
        let mut i = 0; while i < L { kani::assume(raw[i] < 128); i += 1; }
        let s = unsafe { core::str::from_utf8_unchecked(&raw[..len]) };
        let r = <[u8; N] as BigArray>::deserialize(StrDe(s));
        let mut well_formed = len == 2 * N;
        let mut want = [0u8; N];
        if well_formed {
            let mut j = 0;
            while j < N {
                match (hexval(raw[2 * j]), hexval(raw[2 * j + 1])) { (Some(h), Some(l)) => want[j] = (h << 4) | l, _ => well_formed = false }
                j += 1;
            }
        }
        match r {
            Ok(v) => { assert!(well_formed, "a document that is not exactly 2N hex digits (truncated, over-long or not hex) must be refused"); assert!(v == want, "the value is the hex decoding of the document"); }
            Err(_) => assert!(!well_formed, "the document of exactly 2N hex digits must be accepted"),
        }
    }
    #[kani::proof] #[kani::unwind(8)] fn hex_document_n1() { hex_document::<1, 4>() }
    #[kani::proof] #[kani::unwind(8)] fn hex_document_n2() { hex_document::<2, 6>() }

    /// every buffer of 0..=N+2 bytes presented as the binary document (a tuple of N bytes)
    fn binary_document<const N: usize, const L: usize>() {
        let raw: [u8; L] = kani::any();
        let len: usize = kani::any();
        kani::assume(len <= L);
        let mut d = BinDe { data: &raw[..len], pos: 0, short_by: 0 };
        let r = <[u8; N] as BigArray>::deserialize(&mut d);
        match r {
            Ok(v) => {
                assert!(len >= N, "a truncated binary document must be refused");
                assert!(d.pos == N, "exactly N bytes are consumed");
                let i: usize = kani::any(); kani::assume(i < N);
                assert!(v[i] == raw[i], "the value is the first N bytes, in order");
            }
            Err(_) => assert!(len < N, "a buffer holding N bytes must decode"),
        }
        // a front end that announces fewer than N elements is refused as well (no stale zero tail)
        let short: usize = kani::any(); kani::assume(short >= 1 && short <= N);
        let mut d2 = BinDe { data: &raw[..len], pos: 0, short_by: short };
        assert!(<[u8; N] as BigArray>::deserialize(&mut d2).is_err(), "a sequence that ends early is refused");
    }
    #[kani::proof] #[kani::unwind(8)] fn binary_document_n2() { binary_document::<2, 4>() }
    #[kani::proof] #[kani::unwind(52)] fn binary_document_n49() { binary_document::<49, 51>() }

    /// serialize, then deserialize: identity, for every array value — human-readable form
    fn round_trip_hex<const N: usize>() {
        let a: [u8; N] = kani::any();
        let mut rec = Rec { human: true, buf: [0; 8], n: 0, announced: 0, was_str: false };
        assert!(BigArray::serialize(&a, &mut rec).is_ok());
        assert!(rec.was_str && rec.n == 2 * N, "the human-readable form is one string of 2N characters");
        let s = unsafe { core::str::from_utf8_unchecked(&rec.buf[..rec.n]) };
        let back = <[u8; N] as BigArray>::deserialize(StrDe(s));
        assert!(matches!(back, Ok(v) if v == a), "hex form: decode(encode(a)) == a");
    }
    /// ... and binary form
    fn round_trip_binary<const N: usize>() {
        let a: [u8; N] = kani::any();
        let mut rec2 = Rec { human: false, buf: [0; 8], n: 0, announced: 0, was_str: false };
        assert!(BigArray::serialize(&a, &mut rec2).is_ok());
        assert!(!rec2.was_str && rec2.announced == N && rec2.n == N, "the binary form is a tuple of exactly N bytes");
        let mut d = BinDe { data: &rec2.buf[..rec2.n], pos: 0, short_by: 0 };
        let back2 = <[u8; N] as BigArray>::deserialize(&mut d);
        assert!(matches!(back2, Ok(v) if v == a) && d.pos == N, "binary form: decode(encode(a)) == a");
    }
    #[kani::proof] #[kani::unwind(8)] fn round_trip_hex_n1() { round_trip_hex::<1>() }
    #[kani::proof] #[kani::unwind(8)] fn round_trip_binary_n3() { round_trip_binary::<3>() }
}

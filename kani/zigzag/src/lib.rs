//! Kani unit DEP_ZIGZAG: NOT blsful code.  It checks, on the real `uint-zigzag` crate (the version in
//! /repo/Cargo.lock), the facts that the Verus units ASSUME about the LEB128 length prefix of the
//! payload framing (prelude/85_xof_leb.rs, L-ZIGZAG) and that the panic-freedom of
//! `BlsSignCrypt::decrypt` / `BlsTimeCrypt::unseal` (C17) rests on:
//!   * `peek(s) == Some(k)`  ==>  1 <= k <= min(|s|, 19), the prefix s[..k] is itself a complete
//!     varint (`peek` of it is Some(k)), `try_from` succeeds on it (so the `unwrap` after `peek` is
//!     safe) and yields the value `try_from(s)` yields;
//!   * for every length n < 2^64: `to_vec` has at most 10 bytes, `peek` of (to_vec(n) ++ anything)
//!     delimits exactly those bytes and `try_from` gives n back.
#![allow(dead_code, unused_imports)]
mod extracted;
use uint_zigzag::Uint;

#[cfg(kani)]
mod harness {
    use super::*;

    /// every byte string of length <= 20 (19 = MAX_BYTES of a u128 varint)
    #[kani::proof]
    #[kani::unwind(22)]
    fn peek_delimits_a_complete_varint() {
        let buf: [u8; 20] = kani::any();
        let len: usize = kani::any();
        kani::assume(len <= 20);
        let s = &buf[..len];
        if let Some(k) = Uint::peek(s) {
            assert!(k >= 1 && k <= len && k <= 19, "peek stays inside the input");
            let p = &s[..k];
            assert!(Uint::peek(p) == Some(k), "the delimited prefix is a complete varint");
            let a = Uint::try_from(p);
            assert!(a.is_ok(), "try_from succeeds on the delimited prefix");
            let b = Uint::try_from(s);
            assert!(b.is_ok() && a.unwrap().0 == b.unwrap().0, "the prefix decodes to the value of the whole input");
        } else {
            assert!(Uint::try_from(s).is_err(), "no complete varint: try_from fails");
        }
    }

    /// every usize length: encode, then peek / decode with arbitrary trailing bytes
    #[kani::proof]
    #[kani::unwind(22)]
    fn length_prefix_round_trip() {
        let n: u64 = kani::any();
        let v = Uint::from(n as usize).to_vec();
        assert!(v.len() >= 1 && v.len() <= 10, "a 64-bit length takes at most 10 bytes");
        let mut buf = [0u8; 12];
        let rest: [u8; 2] = kani::any();
        let mut i = 0;
        while i < v.len() { buf[i] = v[i]; i += 1; }
        buf[v.len()] = rest[0];
        buf[v.len() + 1] = rest[1];
        let s = &buf[..v.len() + 2];
        assert!(Uint::peek(s) == Some(v.len()), "peek delimits exactly the encoded length");
        let d = Uint::try_from(&s[..v.len()]);
        assert!(d.is_ok() && d.unwrap().0 == n as u128, "the length decodes back");
    }
}

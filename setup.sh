#!/bin/sh
# one-time setup after a fresh restore (offline): build the extractor
set -e
cd "$(dirname "$0")"
export CARGO_NET_OFFLINE=true
(cd extractor && cargo build --release --offline)
echo setup done
